//go:build race

package simrt

import "runtime"

// RaceBuild reports whether the binary was built with -race.
const RaceBuild = true

//go:norace
func RaceDisable() { runtime.RaceDisable() }

//go:norace
func RaceEnable() { runtime.RaceEnable() }
