package simrt_test

import (
	"testing"

	"verif/simrt"
	"verif/simrt/ssync"
)

func TestRecursiveRLockWithWriterDeadlocks(t *testing.T) {
	dead := 0
	for seed := uint64(1); seed <= 40; seed++ {
		var mu ssync.RWMutex
		s := simrt.Run(t, simrt.Config{}, simrt.NewTape(seed), func() {
			done := make(chan int)
			simrt.Go("writer", func() {
				simrt.Yield("w0")
				mu.Lock()
				mu.Unlock()
				simrt.Yield("w1<")
				done <- 1
			})
			mu.RLock()
			simrt.Yield("between")
			simrt.Yield("between2")
			mu.RLock()
			mu.RUnlock()
			mu.RUnlock()
			simrt.Yield("j<")
			<-done
		})
		if s.Outcome == "deadlock" {
			dead++
		}
	}
	t.Logf("deadlocks in 40 seeds: %d", dead)
	if dead == 0 {
		t.Fatalf("a recursive read lock with a writer in between never deadlocked")
	}
}
