package simrt

import (
	"os"
	"syscall"
	"time"
)

// FileNS is the simulated file namespace the instrumented code sees instead of os.Stat and
// os.Remove.  The fake HDF5 module registers itself here; without a registration the real
// file system is used.
type FileNS struct {
	ExistsFn func(name string) bool
	RemoveFn func(name string) bool
}

var FS = &FileNS{}

type fakeInfo struct{ name string }

func (f fakeInfo) Name() string       { return f.name }
func (f fakeInfo) Size() int64        { return 0 }
func (f fakeInfo) Mode() os.FileMode  { return 0644 }
func (f fakeInfo) ModTime() time.Time { return time.Time{} }
func (f fakeInfo) IsDir() bool        { return false }
func (f fakeInfo) Sys() interface{}   { return nil }

func (f *FileNS) Stat(name string) (os.FileInfo, error) {
	if f.ExistsFn == nil {
		return os.Stat(name)
	}
	if f.ExistsFn(name) {
		return fakeInfo{name}, nil
	}
	return nil, &os.PathError{Op: "stat", Path: name, Err: syscall.ENOENT}
}

func (f *FileNS) Remove(name string) error {
	if f.RemoveFn == nil {
		return os.Remove(name)
	}
	if f.RemoveFn(name) {
		return nil
	}
	return &os.PathError{Op: "remove", Path: name, Err: syscall.ENOENT}
}
