//go:build !race

package simrt

// RaceBuild reports whether the binary was built with -race.
const RaceBuild = false

func RaceDisable() {}

func RaceEnable() {}
