module verif/simrt

go 1.25
