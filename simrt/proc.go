package simrt

import (
	"errors"
	"fmt"
	"io"
	"os"
	"runtime"
	"sync"
	"syscall"
	"time"
)

// Simulated child processes and pipes.
//
// The instrumenter maps os/exec.Command -> Command, io.Pipe -> IOPipe, os.Stdin -> Stdin() and
// log.Fatal* -> Fatal*, so that a program that starts a copy of itself and streams data to it
// (ow-sim and its "-writer" children) runs as several simulated processes inside one simulation:
// every process is a group of tasks, the pipe between them is a bounded byte queue with short
// reads and seeded latencies, a process exit ends only that process, and the exit of the root
// process closes the pipe ends it held - as the operating system would.
//
// All state is touched by one task at a time (the scheduler releases one task at a time) and by
// the scheduler while every task is quiescent; it is hidden from the race detector (norace +
// RaceDisable) and the happens-before edges a real pipe gives (write -> read that consumes it,
// read -> return of the write) are re-created with a real mutex.

// ProcMain runs the program's main function for a child process (set by the harness).
var ProcMain func(args []string)

type Proc struct {
	Args     []string
	stdin    *pipeCore
	exited   bool
	ExitCode int
	Killed   bool
}

// PipeOptions are drawn per run by the harness.
type PipeOptions struct {
	Tape       *Tape
	ShortReads bool
	Latency    bool
	// OSPipeCap is the capacity of the pipe between a parent and its child (bytes).
	OSPipeCap int
}

var PipeOpts PipeOptions

// PipeCounters are reset by ResetProcs and read by the harness after a run (reach probes).
var PipeCounters struct{ ShortReads, FullWaits, Bytes, SlowReads int }

var pipeLatencies = []time.Duration{0, 0, time.Millisecond, 100 * time.Millisecond, 2 * time.Second}

type pipeCore struct {
	buf      []byte
	capacity int // 0: synchronous (io.Pipe): a write returns when all of it has been consumed
	wclosed  bool
	rclosed  bool
	werr     error // given by the writer's CloseWithError: what Read returns after the data
	rerr     error // given by the reader's CloseWithError: what Write returns
	wbusy    bool
	hb       sync.Mutex
	Bytes    int
	Reads    int
	Shorts   int
}

type pipeCond struct {
	p    *pipeCore
	kind int // 0 readable, 1 writable (space or reader gone), 2 drained (or reader gone), 3 write slot free
}

//go:norace
func (c *pipeCond) CanGrant(int) bool {
	p := c.p
	switch c.kind {
	case 0:
		return len(p.buf) > 0 || p.wclosed
	case 1:
		return p.rclosed || len(p.buf) < p.capacity
	case 2:
		return p.rclosed || len(p.buf) == 0
	default:
		return !p.wbusy
	}
}

//go:norace
func (c *pipeCond) Grant(int) {}

type procCond struct {
	pr   *Proc
	cmd  *Cmd
	kind int
}

//go:norace
func (c *procCond) CanGrant(int) bool {
	return c.pr.exited && (c.cmd == nil || c.cmd.copierDone)
}

//go:norace
func (c *procCond) Grant(int) {}

// waitFor parks the calling task until cond holds (checked by the scheduler).
//
//go:norace
func waitFor(cond LockState, site string) {
	s := cur.Load()
	if s == nil {
		panic("simrt: simulated pipe or process used outside a simulation")
	}
	g := goid()
	RaceDisable()
	s.mu.Lock()
	t := s.taskOf(g)
	if t == nil {
		s.mu.Unlock()
		RaceEnable()
		panic("simrt: simulated pipe or process used by a goroutine the simulator does not know")
	}
	t.lockWait = cond
	t.lockMode = 0
	s.mu.Unlock()
	RaceEnable()
	s.park(t, site)
}

func (p *pipeCore) edge() {
	p.hb.Lock()
	p.hb.Unlock()
}

//go:norace
func (p *pipeCore) write(b []byte, site string) (int, error) {
	p.edge()
	if p.capacity == 0 {
		waitFor(&pipeCond{p, 3}, site+".slot")
		StateLock()
		p.wbusy = true
		StateUnlock()
		defer func() {
			StateLock()
			p.wbusy = false
			StateUnlock()
		}()
	}
	if len(b) == 0 {
		Yield(site)
		return 0, nil
	}
	n := 0
	for n < len(b) {
		StateLock()
		if p.wclosed {
			StateUnlock()
			return n, io.ErrClosedPipe
		}
		if p.rclosed {
			e := p.rerr
			StateUnlock()
			if e == nil {
				if p.capacity == 0 {
					e = io.ErrClosedPipe
				} else {
					e = syscall.EPIPE
				}
			}
			return n, e
		}
		room := len(b) - n
		if p.capacity > 0 && p.capacity-len(p.buf) < room {
			room = p.capacity - len(p.buf)
		}
		for i := 0; i < room; i++ {
			p.buf = append(p.buf, b[n+i])
		}
		n += room
		p.Bytes += room
		PipeCounters.Bytes += room
		StateUnlock()
		if p.capacity == 0 {
			waitFor(&pipeCond{p, 2}, site+".drain")
			StateLock()
			left := len(p.buf)
			if left > 0 {
				// the reader went away with data unread
				p.buf = p.buf[:0]
				n -= left
			}
			StateUnlock()
			if left > 0 {
				continue // reports the reader's error
			}
		} else if n < len(b) {
			PipeCounters.FullWaits++
			waitFor(&pipeCond{p, 1}, site+".room")
		} else {
			Yield(site)
		}
	}
	p.edge()
	return n, nil
}

//go:norace
func (p *pipeCore) read(b []byte, site string) (int, error) {
	if len(b) == 0 {
		return 0, nil
	}
	if PipeOpts.Latency && PipeOpts.Tape != nil {
		if d := pipeLatencies[PipeOpts.Tape.Choose(len(pipeLatencies))]; d > 0 {
			PipeCounters.SlowReads++
			time.Sleep(d)
			Yield(site + "~")
		}
	}
	waitFor(&pipeCond{p, 0}, site)
	StateLock()
	if len(p.buf) == 0 {
		e := p.werr
		StateUnlock()
		if e == nil {
			e = io.EOF
		}
		return 0, e
	}
	n := len(b)
	if len(p.buf) < n {
		n = len(p.buf)
	}
	if PipeOpts.ShortReads && PipeOpts.Tape != nil && n > 1 && PipeOpts.Tape.Choose(3) == 2 {
		n = 1 + PipeOpts.Tape.Choose(n-1)
		p.Shorts++
		PipeCounters.ShortReads++
	}
	for i := 0; i < n; i++ {
		b[i] = p.buf[i]
	}
	rest := len(p.buf) - n
	for i := 0; i < rest; i++ {
		p.buf[i] = p.buf[n+i]
	}
	p.buf = p.buf[:rest]
	p.Reads++
	StateUnlock()
	p.edge()
	return n, nil
}

//go:norace
func (p *pipeCore) closeWrite(err error) {
	StateLock()
	if !p.wclosed {
		p.wclosed = true
		p.werr = err
	}
	StateUnlock()
	Yield("pipe.closeWrite")
}

//go:norace
func (p *pipeCore) closeRead(err error) {
	StateLock()
	if !p.rclosed {
		p.rclosed = true
		p.rerr = err
	}
	StateUnlock()
	Yield("pipe.closeRead")
}

// PipeReader / PipeWriter stand in for io.PipeReader / io.PipeWriter.
type PipeReader struct{ core *pipeCore }
type PipeWriter struct{ core *pipeCore }

// IOPipe is io.Pipe: a synchronous in-memory pipe.
func IOPipe() (*PipeReader, *PipeWriter) {
	c := &pipeCore{}
	return &PipeReader{c}, &PipeWriter{c}
}

func (r *PipeReader) Read(b []byte) (int, error) { return r.core.read(b, "iopipe.read") }
func (r *PipeReader) Close() error               { r.core.closeRead(nil); return nil }
func (r *PipeReader) CloseWithError(err error) error {
	r.core.closeRead(err)
	return nil
}
func (w *PipeWriter) Write(b []byte) (int, error) { return w.core.write(b, "iopipe.write") }
func (w *PipeWriter) Close() error                { w.core.closeWrite(nil); return nil }
func (w *PipeWriter) CloseWithError(err error) error {
	w.core.closeWrite(err)
	return nil
}

// Stats of a pipe end (for probes).
func (w *PipeWriter) Stats() (bytes, reads, shorts int) {
	return w.core.Bytes, w.core.Reads, w.core.Shorts
}

// Cmd stands in for os/exec.Cmd (the part ow-sim uses).
type Cmd struct {
	Path   string
	Args   []string
	Stdin  io.Reader
	Stdout io.Writer
	Stderr io.Writer

	proc       *Proc
	copierDone bool
	started    bool
}

func Command(name string, args ...string) *Cmd {
	return &Cmd{Path: name, Args: append([]string{name}, args...)}
}

var procs []*Cmd

// Procs returns the commands started in the current run.
func Procs() []*Cmd { return procs }

// ResetProcs forgets the commands of earlier runs.
func ResetProcs() {
	procs = nil
	PipeCounters.ShortReads, PipeCounters.FullWaits, PipeCounters.Bytes, PipeCounters.SlowReads = 0, 0, 0, 0
}

func (c *Cmd) Proc() *Proc { return c.proc }

// Start launches the child: one task runs ProcMain(args), another copies Stdin into the
// child's standard input through a bounded pipe (what os/exec does for a non-file Stdin).
func (c *Cmd) Start() error {
	if c.started {
		return errors.New("exec: already started")
	}
	if ProcMain == nil {
		panic("simrt: ProcMain not set")
	}
	c.started = true
	capacity := PipeOpts.OSPipeCap
	if capacity <= 0 {
		capacity = 65536
	}
	pr := &Proc{Args: c.Args, stdin: &pipeCore{capacity: capacity}}
	c.proc = pr
	StateLock()
	procs = append(procs, c)
	StateUnlock()
	if c.Stdin == nil {
		pr.stdin.wclosed = true
		c.copierDone = true
	} else {
		src := c.Stdin
		Go("exec.stdin-copier", func() {
			buf := make([]byte, 32768)
			for {
				n, err := src.Read(buf)
				if n > 0 {
					if _, werr := pr.stdin.write(buf[:n], "ospipe.write"); werr != nil {
						break
					}
				}
				if err != nil {
					break
				}
			}
			pr.stdin.closeWrite(nil)
			StateLock()
			c.copierDone = true
			StateUnlock()
		})
	}
	goProc("exec.child", pr, func() {
		defer func() {
			// process exit (return from main, Exit, or a panic that is reported by the task
			// wrapper): the descriptors of the process are closed
			StateLock()
			pr.exited = true
			pr.stdin.rclosed = true
			StateUnlock()
		}()
		ProcMain(pr.Args[1:])
	})
	return nil
}

// Wait blocks until the child has exited and the stdin copier has finished.
func (c *Cmd) Wait() error {
	if !c.started {
		return errors.New("exec: not started")
	}
	waitFor(&procCond{pr: c.proc, cmd: c}, "exec.wait")
	if c.proc.ExitCode != 0 {
		return errors.New("exit status " + itoa(c.proc.ExitCode))
	}
	return nil
}

func itoa(v int) string {
	if v == 0 {
		return "0"
	}
	neg := v < 0
	if neg {
		v = -v
	}
	var b []byte
	for v > 0 {
		b = append([]byte{byte('0' + v%10)}, b...)
		v /= 10
	}
	if neg {
		return "-" + string(b)
	}
	return string(b)
}

// OSStdin is os.Stdin of the calling task's process.
var OSStdin io.Reader = dynStdin{}

type dynStdin struct{}

//go:norace
func (dynStdin) Read(b []byte) (int, error) {
	t := CurrentTask()
	if t == nil || t.proc == nil {
		return os.Stdin.Read(b)
	}
	return t.proc.stdin.read(b, "stdin.read")
}

// CurrentProc returns the simulated child process of the calling task (nil in the root process).
func CurrentProc() *Proc {
	t := CurrentTask()
	if t == nil {
		return nil
	}
	return t.proc
}

// RootExited models the exit of the root process: the pipe ends it held are closed, so the
// stdin copiers of its children see end-of-file.  Called by the harness when the program's
// main function has returned.
//
//go:norace
func RootExited() {
	StateLock()
	for _, c := range procs {
		if r, ok := c.Stdin.(*PipeReader); ok {
			r.core.wclosed = true
		}
	}
	StateUnlock()
}

// goProc starts f as the first task of a new process.
//
//go:norace
func goProc(site string, pr *Proc, f func()) {
	s := cur.Load()
	g := goid()
	RaceDisable()
	s.mu.Lock()
	p := s.taskOf(g)
	if p == nil {
		s.mu.Unlock()
		RaceEnable()
		panic("simrt: Start called by a goroutine the simulator does not know")
	}
	p.nchild++
	id := make([]int, 0, len(p.id)+1)
	for _, v := range p.id {
		id = append(id, v)
	}
	id = append(id, p.nchild)
	s.mu.Unlock()
	t := &Task{id: id, Key: keyOf(id), wake: make(chan struct{}), proc: pr}
	s.startTask(t, site, f)
	RaceEnable()
}

// exitProc ends the calling task's child process.
//
//go:norace
func exitProc(pr *Proc, code int) {
	StateLock()
	pr.ExitCode = code
	StateUnlock()
	runtime.Goexit()
}

// Fatal, Fatalf, Fatalln stand in for the log package's functions of the same names: they end
// the calling process (not the simulation).
func Fatal(v ...interface{}) {
	fmt.Fprintln(os.Stderr, v...)
	Exit(1)
}

func Fatalf(format string, v ...interface{}) {
	fmt.Fprintf(os.Stderr, format+"\n", v...)
	Exit(1)
}

func Fatalln(v ...interface{}) {
	fmt.Fprintln(os.Stderr, v...)
	Exit(1)
}
