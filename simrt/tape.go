package simrt

// A Tape is the single source of every decision of one simulated run.
//
// Generation mode: values are drawn from a splitmix64 PRNG and recorded.
// Replay mode: recorded values are returned (value mod n when n changed, 0 when exhausted,
// which every caller maps to its simplest alternative: "keep running the current task",
// "no fault", "smallest size").  Choices with n<=1 are not recorded.
type Tape struct {
	rng    uint64
	replay bool
	in     []int
	pos    int
	Rec    []int
	// Genuine counts the choices that had more than one alternative.
	Genuine int
	hash    uint64
}

func NewTape(seed uint64) *Tape { return &Tape{rng: seed, hash: 1469598103934665603} }

func ReplayTape(vals []int) *Tape {
	return &Tape{replay: true, in: vals, hash: 1469598103934665603}
}

//go:norace
func splitmix(x *uint64) uint64 {
	*x += 0x9e3779b97f4a7c15
	z := *x
	z = (z ^ (z >> 30)) * 0xbf58476d1ce4e5b9
	z = (z ^ (z >> 27)) * 0x94d049bb133111eb
	return z ^ (z >> 31)
}

// Mix derives an independent seed from a base seed and a stream/run number.
func Mix(seed uint64, k uint64) uint64 {
	x := seed ^ (k+1)*0xd1342543de82ef95
	splitmix(&x)
	return splitmix(&x)
}

// Choose returns a value in [0,n).
//
//go:norace
func (t *Tape) Choose(n int) int {
	if n <= 1 {
		return 0
	}
	var v int
	if t.replay {
		if t.pos < len(t.in) {
			v = t.in[t.pos] % n
			if v < 0 {
				v = -v
			}
		}
		t.pos++
	} else {
		v = int(splitmix(&t.rng) % uint64(n))
	}
	t.Rec = append(t.Rec, v)
	t.Genuine++
	t.hash = (t.hash ^ uint64(v+1) ^ uint64(n)<<32) * 1099511628211
	return v
}

// Record stores a decision that was computed elsewhere (by a scheduling policy) so that
// the replay of the tape reproduces it.  In replay mode the recorded value wins.
//
//go:norace
func (t *Tape) Decide(n int, want int) int {
	if n <= 1 {
		return 0
	}
	v := want
	if t.replay {
		v = 0
		if t.pos < len(t.in) {
			v = t.in[t.pos] % n
			if v < 0 {
				v = -v
			}
		}
		t.pos++
	}
	t.Rec = append(t.Rec, v)
	t.Genuine++
	t.hash = (t.hash ^ uint64(v+1) ^ uint64(n)<<32) * 1099511628211
	return v
}

// Replaying reports whether the tape returns recorded values.
func (t *Tape) Replaying() bool { return t.replay }

// Rand returns raw PRNG output that is NOT recorded; only for policies whose resulting
// decision is recorded through Decide.
//
//go:norace
func (t *Tape) Rand(n int) int {
	if n <= 1 {
		return 0
	}
	return int(splitmix(&t.rng) % uint64(n))
}

func (t *Tape) Hash() uint64 { return t.hash }

// Float returns lo + (hi-lo)*k/4095 with k = Choose(4096).
func (t *Tape) Float(lo, hi float64) float64 {
	k := t.Choose(4096)
	return lo + (hi-lo)*float64(k)/4095
}

// Bool returns true with probability about pct/100 (0 = false is the simplest value).
func (t *Tape) Bool(pct int) bool {
	return t.Choose(100) >= 100-pct
}
