// Package simrt is the deterministic simulator runtime: a seeded task scheduler built on
// testing/synctest (fake clock + quiescence detection), the hooks the instrumented code
// under test calls (Go, Yield, Exit, Trace) and the bookkeeping the simulated sync package
// (ssync) needs.
//
// One simulated run = one synctest bubble.  The bubble's root goroutine is the scheduler; the
// code under test runs as tasks (real goroutines) of which exactly one is released at a time.
// Every function here is //go:norace and brackets its internal synchronisation with
// RaceDisable/RaceEnable, so a -race build sees only the happens-before edges the code under
// test creates itself.
package simrt

import (
	"os"
	"fmt"
	"runtime"
	"sort"
	"strings"
	"sync"
	"sync/atomic"
	"testing"
	"testing/synctest"
	"time"
)

// Policy kinds (drawn per run: swarm).
const (
	PolUniform  = iota // uniform among eligible tasks at every point
	PolRunBlock        // keep the current task, preempt with probability PreemptPct
	PolPCT             // random priorities, D priority change points
	PolFIFO            // always lowest id (the "sequential" schedule)
	numPolicies
)

type Config struct {
	MaxSteps   int           // scheduling decisions per run
	MaxSimTime time.Duration // simulated time cap
	TraceCap   int           // number of events kept for the replay file
	DeepPct    int           // percentage of runs in which kernel-level (YieldDeep) scheduling points are active
}

type Event struct {
	Step int    `json:"step"`
	Task string `json:"task"`
	Site string `json:"site"`
	SimT int64  `json:"sim_ns"`
}

type TraceRec struct {
	Seq  int           `json:"seq"`
	Task string        `json:"task"`
	Name string        `json:"name"`
	Args []interface{} `json:"args,omitempty"`
}

type Crash struct {
	Task  string `json:"task"`
	Site  string `json:"site"`
	Value string `json:"value"`
	Stack string `json:"stack"`
}

type Task struct {
	id      []int
	Key     string
	nchild  int
	goid    int64
	wake    chan struct{}
	parked  bool
	site    string
	done    bool
	exiting bool
	prio    int
	// pending lock request (ssync)
	lockWait LockState
	lockMode int // 1 read, 2 write
	lockHeld LockState // identity recorded in the held list after the grant (nil: lockWait itself)
	// held locks (ssync), for the lock-discipline monitor
	heldL []LockState
	heldM []int
	// simulated child process the task belongs to (nil: the root process)
	proc *Proc
}

// LockState is implemented by ssync's mutexes; the scheduler asks whether a parked request
// can be granted and performs the grant when it releases the task.
type LockState interface {
	CanGrant(mode int) bool
	Grant(mode int)
}

type Stats struct {
	Steps       int            `json:"steps"`
	Picks       int            `json:"picks"`       // decisions with >=2 eligible tasks
	Switches    int            `json:"switches"`    // released task != previous task
	Preemptions int            `json:"preemptions"` // switch while previous task was still eligible
	MaxEligible int            `json:"max_eligible"`
	Tasks       int            `json:"tasks"`
	SimNanos    int64          `json:"sim_ns"`
	ClockJumps  int            `json:"clock_jumps"`
	SwitchPairs map[string]int `json:"-"`
	LockWaits   int            `json:"lock_waits"`
}

type Sim struct {
	mu       sync.Mutex
	all      []*Task
	live     int
	kick     chan struct{}
	Sched    *Tape
	cfg      Config
	policy   int
	preempt  int // percent
	pctD     int
	pctAt    map[int]bool
	current  *Task
	last     *Task
	aborting bool
	Deep     bool // kernel-level scheduling points active in this run
	deepLeft int
	start    time.Time

	Crash    *Crash
	ExitCode *int
	ExitSite string
	Outcome  string // "", "deadlock", "step-cap", "time-cap", "crash", "exit"
	Blocked  []string
	Events   []Event
	Traces   []TraceRec
	traceSeq int
	Stats    Stats
	exited   int32
	Seq      int64 // global event sequence number (porcupine stamps)

	// OnYield, when set, is called (scheduler side, norace) with every released task.
	Records     []interface{}
	ProbeNames  []string
	ProbeCounts []int
}

var cur atomic.Pointer[Sim]

// epoch counts simulated runs.  A run that was aborted can leave goroutines behind that are
// blocked for ever (sleeping on a clock that stopped, or in a channel operation) while holding a
// simulated lock; ssync re-initialises a lock the first time it is touched in a new epoch, so
// that the next run in the same process starts with every lock free.
var epoch atomic.Int64

// Epoch returns the number of the current simulated run.
//
//go:norace
func Epoch() int64 { return epoch.Load() }

// Active returns the running simulation or nil.
//
//go:norace
func Active() *Sim { return cur.Load() }

//go:norace
func goid() int64 {
	var buf [64]byte
	n := runtime.Stack(buf[:], false)
	// "goroutine 123 ["
	var id int64
	for i := 10; i < n; i++ {
		c := buf[i]
		if c < '0' || c > '9' {
			break
		}
		id = id*10 + int64(c-'0')
	}
	return id
}

//go:norace
func keyOf(id []int) string {
	// no fmt here: fmt's sync.Pool must not be used while race handling is disabled
	b := make([]byte, 0, 5*len(id))
	for i, v := range id {
		if i > 0 {
			b = append(b, '.')
		}
		b = append(b, byte('0'+v/1000%10), byte('0'+v/100%10), byte('0'+v/10%10), byte('0'+v%10))
	}
	return string(b)
}

// CurrentTask returns the task of the calling goroutine (nil outside a simulation).
//
//go:norace
func CurrentTask() *Task {
	s := cur.Load()
	if s == nil {
		return nil
	}
	g := goid()
	RaceDisable()
	s.mu.Lock()
	t := s.taskOf(g)
	s.mu.Unlock()
	RaceEnable()
	return t
}

// NextSeq returns the next global event sequence number (used to stamp invoke/return events).
//
//go:norace
func NextSeq() int64 {
	s := cur.Load()
	if s == nil {
		return 0
	}
	RaceDisable()
	s.mu.Lock()
	s.Seq++
	v := s.Seq
	s.mu.Unlock()
	RaceEnable()
	return v
}

// SimTime returns the simulated time since the start of the run.
//
//go:norace
func SimTime() time.Duration {
	s := cur.Load()
	if s == nil {
		return 0
	}
	return time.Since(s.start)
}

// RunStartHook, when set, is called at the start of every simulated execution (the harness's
// wall-clock watchdog restarts its timer there: a run of the harness may consist of many executions).
var RunStartHook func()

// Run executes body as task 0 of a new simulation inside a synctest bubble and returns the
// simulation record.  sched decides every scheduling choice.
//
//go:norace
func Run(t *testing.T, cfg Config, sched *Tape, body func()) (s *Sim) {
	if RunStartHook != nil {
		RunStartHook()
	}
	if cfg.MaxSteps == 0 {
		cfg.MaxSteps = 200000
	}
	if cfg.MaxSimTime == 0 {
		cfg.MaxSimTime = time.Hour
	}
	epoch.Add(1)
	s = &Sim{Sched: sched, cfg: cfg, kick: nil}
	s.Stats.SwitchPairs = map[string]int{}
	// policy parameters are part of the schedule tape, so a replay uses the same policy
	s.policy = sched.Choose(numPolicies)
	s.preempt = []int{2, 10, 30, 100}[sched.Choose(4)]
	s.pctD = 1 + sched.Choose(3)
	if cfg.DeepPct > 0 {
		s.Deep = sched.Choose(100) >= 100-cfg.DeepPct
		s.deepLeft = 1500
	}
	defer func() {
		cur.Store(nil)
		if r := recover(); r != nil {
			// synctest reports leftover blocked goroutines as a panic of Test
			msg := fmt.Sprint(r)
			if strings.Contains(msg, "deadlock") {
				if s.Outcome == "" {
					s.Outcome = "deadlock"
				}
				return
			}
			panic(r)
		}
	}()
	synctest.Test(t, func(t *testing.T) {
		RaceDisable()
		s.kick = make(chan struct{}, 1)
		// the simulated clock of a bubble starts at a fixed instant (2000-01-01): move it by a seeded
		// amount, so that code which looks at the date or at absolute time sees different days, a
		// leap day now and then, and instants beyond 2038
		switch sched.Choose(3) {
		case 1:
			time.Sleep(time.Duration(sched.Choose(86400)) * time.Second)
		case 2:
			time.Sleep(time.Duration(sched.Choose(50*365)) * 24 * time.Hour)
		}
		s.start = time.Now()
		cur.Store(s)
		root := &Task{id: []int{0}, Key: keyOf([]int{0}), wake: make(chan struct{})}
		s.startTask(root, "main", body)
		s.loop()
		cur.Store(nil)
		RaceEnable()
		// legitimate happens-before from every finished task to the evaluation code
		atomic.LoadInt32(&s.exited)
	})
	return s
}

//go:norace
func (s *Sim) startTask(t *Task, site string, f func()) {
	s.mu.Lock()
	s.all = append(s.all, t)
	s.live++
	s.Stats.Tasks++
	t.parked = true // will park before its first statement
	t.site = site
	s.mu.Unlock()
	// the goroutine is created with race handling enabled so that the creation edge
	// parent -> child (which the code under test has too) is recorded
	RaceEnable()
	go taskMain(s, t, f)
	RaceDisable()
}

//go:norace
func taskMain(s *Sim, t *Task, f func()) {
	RaceDisable()
	g := goid()
	s.mu.Lock()
	t.goid = g
	s.mu.Unlock()
	RaceEnable()
	defer taskExit(s, t)
	// park before the first statement
	s.park(t, t.site)
	f()
}

//go:norace
func taskExit(s *Sim, t *Task) {
	r := recover()
	var crash *Crash
	if r != nil {
		buf := make([]byte, 8192)
		n := runtime.Stack(buf, false)
		crash = &Crash{Task: t.Key, Site: t.site, Value: fmt.Sprint(r), Stack: trimStack(string(buf[:n]))}
	}
	RaceDisable()
	s.mu.Lock()
	if r != nil && s.Crash == nil {
		s.Crash = crash
		s.aborting = true
		if s.Outcome == "" {
			s.Outcome = "crash"
		}
	}
	t.done = true
	t.parked = false
	s.live--
	s.mu.Unlock()
	select {
	case s.kick <- struct{}{}:
	default:
	}
	RaceEnable()
	atomic.AddInt32(&s.exited, 1)
}

func trimStack(st string) string {
	lines := strings.Split(st, "\n")
	out := []string{}
	for _, l := range lines {
		if strings.Contains(l, "simrt.") || strings.Contains(l, "runtime/panic") || strings.Contains(l, "/simrt/") {
			continue
		}
		out = append(out, l)
		if len(out) > 24 {
			break
		}
	}
	return strings.Join(out, "\n")
}

// park blocks the calling task until the scheduler releases it.
//
//go:norace
func (s *Sim) park(t *Task, site string) {
	RaceDisable()
	s.mu.Lock()
	if s.aborting {
		already := t.exiting
		t.exiting = true
		s.mu.Unlock()
		RaceEnable()
		if already {
			// a deferred function of a task that is already unwinding reached a hook
			return
		}
		runtime.Goexit()
	}
	t.parked = true
	t.site = site
	s.mu.Unlock()
	select {
	case s.kick <- struct{}{}:
	default:
	}
	<-t.wake
	s.mu.Lock()
	ab := s.aborting
	s.mu.Unlock()
	if ab {
		t.exiting = true
	}
	RaceEnable()
	if ab {
		runtime.Goexit()
	}
}

// Yield is a scheduling point.  Inert outside a simulation and for goroutines the simulator
// does not know.
//
//go:norace
func Yield(site string) {
	s := cur.Load()
	if s == nil {
		return
	}
	g := goid()
	RaceDisable()
	s.mu.Lock()
	t := s.taskOf(g)
	s.mu.Unlock()
	RaceEnable()
	if t == nil {
		return
	}
	s.park(t, site)
}

// YieldDeep is a scheduling point inside a model kernel; it is active only in "deep" runs
// (drawn per run from the schedule tape), because kernels execute many statements.
//
//go:norace
func YieldDeep(site string) {
	s := cur.Load()
	if s == nil || !s.Deep {
		return
	}
	// a bounded number of kernel-level scheduling points per run (only one task runs at a time,
	// so the counter needs no lock and is deterministic); afterwards kernels run atomically
	if s.deepLeft <= 0 {
		return
	}
	s.deepLeft--
	// computing takes time: at one kernel-level point in eight the task also lets 1-64 microseconds
	// of simulated time pass (durations measured around a kernel are then non-zero and differ
	// between tasks); the choice is part of the schedule tape
	if s.Sched.Choose(8) == 7 {
		d := time.Duration(1+s.Sched.Choose(64)) * time.Microsecond
		Yield(site)
		time.Sleep(d)
	}
	Yield(site)
}

// Go starts f as a new task (a plain goroutine outside a simulation).
//
//go:norace
func Go(site string, f func()) {
	s := cur.Load()
	if s == nil {
		go f()
		return
	}
	g := goid()
	RaceDisable()
	s.mu.Lock()
	p := s.taskOf(g)
	if p == nil {
		s.mu.Unlock()
		RaceEnable()
		go f()
		return
	}
	p.nchild++
	id := append(append([]int{}, p.id...), p.nchild)
	s.mu.Unlock()
	t := &Task{id: id, Key: keyOf(id), wake: make(chan struct{}), proc: p.proc}
	s.startTask(t, site, f)
	RaceEnable()
}

// Exit records a process exit requested by the code under test and ends the run.
//
//go:norace
func Exit(code int) {
	s := cur.Load()
	if s == nil {
		// not inside a simulation (an instrumented program run as a real process): the real thing
		os.Exit(code)
	}
	if t := CurrentTask(); t != nil && t.proc != nil {
		// a child process exits: only that process ends
		exitProc(t.proc, code)
	}
	RaceDisable()
	s.mu.Lock()
	if s.ExitCode == nil {
		c := code
		s.ExitCode = &c
		if t := s.taskOf(goid()); t != nil {
			s.ExitSite = t.site
		}
		if s.Outcome == "" {
			s.Outcome = "exit"
		}
	}
	s.aborting = true
	s.mu.Unlock()
	RaceEnable()
	runtime.Goexit()
}

// Trace records a protocol event of the code under test.
//
//go:norace
func Trace(name string, args ...interface{}) {
	s := cur.Load()
	if s == nil {
		return
	}
	g := goid()
	RaceDisable()
	s.mu.Lock()
	key := "?"
	if t := s.taskOf(g); t != nil {
		key = t.Key
	}
	s.traceSeq++
	s.Seq++
	if len(s.Traces) < 100000 {
		s.Traces = append(s.Traces, TraceRec{Seq: int(s.Seq), Task: key, Name: name, Args: args})
	}
	s.mu.Unlock()
	RaceEnable()
}

//go:norace
func (s *Sim) eligible() (el []*Task, blocked int) {
	for _, t := range s.all {
		if t.done {
			continue
		}
		if !t.parked {
			blocked++
			continue
		}
		if t.lockWait != nil && !t.lockWait.CanGrant(t.lockMode) {
			blocked++
			continue
		}
		el = append(el, t)
	}
	// insertion sort by logical id (no closures: they would be race-instrumented)
	for i := 1; i < len(el); i++ {
		for j := i; j > 0 && el[j].Key < el[j-1].Key; j-- {
			el[j], el[j-1] = el[j-1], el[j]
		}
	}
	return
}

//go:norace
func (s *Sim) loop() {
	for {
		synctest.Wait()
		s.mu.Lock()
		if s.live == 0 {
			s.mu.Unlock()
			break
		}
		if s.aborting {
			// release everybody that is parked; they Goexit.  Tasks blocked in channel
			// operations of the code under test stay blocked (reported by synctest).
			n := 0
			for _, t := range s.all {
				if !t.done && t.parked {
					t.parked = false
					n++
					s.mu.Unlock()
					t.wake <- struct{}{}
					s.mu.Lock()
				}
			}
			s.mu.Unlock()
			if n == 0 {
				s.noteBlocked()
				return
			}
			continue
		}
		el, _ := s.eligible()
		if len(el) == 0 {
			s.mu.Unlock()
			// nothing can run now: let the fake clock jump to the next timer, or give up
			// after the simulated-time cap (a true deadlock has no timers at all).
			remaining := s.cfg.MaxSimTime - time.Since(s.start)
			if remaining <= 0 {
				s.finishStuck("time-cap")
				return
			}
			before := time.Now()
			timer := time.NewTimer(remaining)
			select {
			case <-s.kick:
				timer.Stop()
				if time.Since(before) > 0 {
					s.Stats.ClockJumps++
				}
			case <-timer.C:
				// woke by our own timer: either a timer of the code under test lies
				// beyond the cap, or nothing can ever wake anybody
				synctest.Wait()
				s.mu.Lock()
				el2, _ := s.eligible()
				s.mu.Unlock()
				if len(el2) == 0 {
					s.finishStuck("deadlock")
					return
				}
			}
			continue
		}
		if s.Stats.Steps >= s.cfg.MaxSteps {
			s.mu.Unlock()
			s.finishStuck("step-cap")
			return
		}
		// order: current task first (choice 0 = "keep running"), then by logical id
		if s.current != nil {
			for i, t := range el {
				if t == s.current && i > 0 {
					copy(el[1:i+1], el[0:i])
					el[0] = t
					break
				}
			}
		}
		curEligible := s.current != nil && el[0] == s.current
		idx := s.Sched.Decide(len(el), s.want(el, curEligible))
		t := el[idx]
		s.Stats.Steps++
		if len(el) > 1 {
			s.Stats.Picks++
		}
		if len(el) > s.Stats.MaxEligible {
			s.Stats.MaxEligible = len(el)
		}
		if s.last != nil && t != s.last {
			s.Stats.Switches++
			if curEligible {
				s.Stats.Preemptions++
			}
			if len(s.Stats.SwitchPairs) < 4096 {
				s.Stats.SwitchPairs[s.last.site+">"+t.site]++
			}
		}
		s.current, s.last = t, t
		if t.lockWait != nil {
			if t.lockMode != 0 {
				t.lockWait.Grant(t.lockMode)
				held := t.lockWait
				if t.lockHeld != nil {
					held = t.lockHeld
				}
				t.heldL = append(t.heldL, held)
				t.heldM = append(t.heldM, t.lockMode)
			}
			t.lockHeld = nil
			// (mode 0: a pipe or process condition - nothing is held afterwards)
			t.lockWait = nil
		}
		t.parked = false
		s.Seq++
		if len(s.Events) < s.cfg.TraceCap {
			s.Events = append(s.Events, Event{Step: s.Stats.Steps, Task: t.Key, Site: t.site, SimT: int64(time.Since(s.start))})
		}
		s.mu.Unlock()
		t.wake <- struct{}{}
	}
	s.Stats.SimNanos = int64(time.Since(s.start))
}

// want computes the policy's preferred index in el (el[0] is the current task when
// curEligible).  Uses unrecorded PRNG output; the decision itself is recorded by Decide.
//
//go:norace
func (s *Sim) want(el []*Task, curEligible bool) int {
	n := len(el)
	if n <= 1 || s.Sched.Replaying() {
		return 0
	}
	switch s.policy {
	case PolUniform:
		return s.Sched.Rand(n)
	case PolRunBlock:
		if curEligible {
			if s.Sched.Rand(100) < s.preempt {
				return 1 + s.Sched.Rand(n-1)
			}
			return 0
		}
		return s.Sched.Rand(n)
	case PolPCT:
		// priorities assigned lazily; at a change point the running task drops to the lowest priority
		for _, t := range el {
			if t.prio == 0 {
				t.prio = 1000 + s.Sched.Rand(1000000)
			}
		}
		if s.pctAt == nil {
			s.pctAt = map[int]bool{}
			for i := 0; i < s.pctD; i++ {
				s.pctAt[1+s.Sched.Rand(400)] = true
			}
		}
		if s.pctAt[s.Stats.Steps] && curEligible {
			el[0].prio = 1 + s.Sched.Rand(999)
		}
		best := 0
		for i, t := range el {
			if t.prio > el[best].prio {
				best = i
			}
		}
		return best
	case PolFIFO:
		// lowest logical id (el[1:] is sorted; el[0] may be the current task)
		best := 0
		for i, t := range el {
			if t.Key < el[best].Key {
				best = i
			}
		}
		return best
	}
	return 0
}

//go:norace
func (s *Sim) noteBlocked() {
	s.mu.Lock()
	s.Blocked = s.Blocked[:0]
	for _, t := range s.all {
		if !t.done {
			st := "blocked in channel operation or sleeping"
			if t.parked {
				st = "parked"
				if t.lockWait != nil {
					st = "waiting for lock"
				}
			}
			s.Blocked = append(s.Blocked, t.Key+" @ "+t.site+" ("+st+")")
		}
	}
	s.mu.Unlock()
}

// finishStuck ends a run that cannot (or may not) continue: records why, then aborts the
// parked tasks so that the bubble can end.
//
//go:norace
func (s *Sim) finishStuck(why string) {
	s.noteBlocked()
	s.mu.Lock()
	if s.Outcome == "" {
		s.Outcome = why
	}
	s.aborting = true
	s.Stats.SimNanos = int64(time.Since(s.start))
	s.mu.Unlock()
	for {
		synctest.Wait()
		s.mu.Lock()
		n := 0
		for _, t := range s.all {
			if !t.done && t.parked {
				t.parked = false
				n++
				s.mu.Unlock()
				t.wake <- struct{}{}
				s.mu.Lock()
			}
		}
		live := s.live
		s.mu.Unlock()
		if n == 0 || live == 0 {
			return
		}
	}
}

// ---- services for ssync ----

// LockAcquire parks the calling task until the scheduler grants the lock.  Returns false when
// the caller is not a simulated task (ssync then uses the real lock only).
//
//go:norace
func LockAcquire(l LockState, mode int, site string) bool {
	s := cur.Load()
	if s == nil {
		return false
	}
	g := goid()
	RaceDisable()
	s.mu.Lock()
	t := s.taskOf(g)
	if t == nil {
		s.mu.Unlock()
		RaceEnable()
		return false
	}
	t.lockWait = l
	t.lockMode = mode
	s.Stats.LockWaits++
	s.mu.Unlock()
	RaceEnable()
	s.park(t, site)
	return true
}

// LockAcquireVia is LockAcquire with a per-request condition: the scheduler asks cond whether the
// request can be granted (and tells it when it is), and records held as the lock the task then holds.
//
//go:norace
func LockAcquireVia(cond, held LockState, mode int, site string) bool {
	s := cur.Load()
	if s == nil {
		return false
	}
	g := goid()
	RaceDisable()
	s.mu.Lock()
	t := s.taskOf(g)
	if t == nil {
		s.mu.Unlock()
		RaceEnable()
		return false
	}
	t.lockWait = cond
	t.lockHeld = held
	t.lockMode = mode
	s.Stats.LockWaits++
	s.mu.Unlock()
	RaceEnable()
	s.park(t, site)
	return true
}

// LockReleased tells the scheduler the calling task no longer holds l.
//
//go:norace
func LockReleased(l LockState) {
	s := cur.Load()
	if s == nil {
		return
	}
	g := goid()
	RaceDisable()
	s.mu.Lock()
	if t := s.taskOf(g); t != nil {
		for i := len(t.heldL) - 1; i >= 0; i-- {
			if t.heldL[i] == l {
				// manual shift: copy()/append(x, y...) go through runtime.slicecopy,
				// which is race-annotated even in norace functions
				for j := i; j+1 < len(t.heldL); j++ {
					t.heldL[j] = t.heldL[j+1]
					t.heldM[j] = t.heldM[j+1]
				}
				t.heldL = t.heldL[:len(t.heldL)-1]
				t.heldM = t.heldM[:len(t.heldM)-1]
				break
			}
		}
	}
	s.mu.Unlock()
	RaceEnable()
}

// HeldLocks returns the modes (1 read, 2 write) of the simulated locks the calling task holds.
//
//go:norace
func HeldLocks() (modes []int, known bool) {
	s := cur.Load()
	if s == nil {
		return nil, false
	}
	g := goid()
	RaceDisable()
	s.mu.Lock()
	t := s.taskOf(g)
	if t != nil {
		known = true
		for _, m := range t.heldM {
			modes = append(modes, m)
		}
	}
	s.mu.Unlock()
	RaceEnable()
	sort.Ints(modes)
	return
}

// StateLock / StateUnlock bracket updates of simulated lock state (ssync) so that they are
// atomic with respect to the scheduler.  Both are no-ops outside a simulation.
//
//go:norace
func StateLock() bool {
	s := cur.Load()
	if s == nil {
		return false
	}
	RaceDisable()
	s.mu.Lock()
	return true
}

//go:norace
func StateUnlock() {
	s := cur.Load()
	if s == nil {
		return
	}
	s.mu.Unlock()
	RaceEnable()
}

// TaskKey returns the logical id of the calling task ("" if unknown).
//
//go:norace
func TaskKey() string {
	t := CurrentTask()
	if t == nil {
		return ""
	}
	return t.Key
}

//go:norace
func (s *Sim) taskOf(g int64) *Task {
	for _, t := range s.all {
		if t.goid == g && !t.done {
			return t
		}
	}
	return nil
}

// Record appends v to the run's record list (history events of the harness); safe to call
// from any task, invisible to the race detector.
//
//go:norace
func Record(v interface{}) {
	s := cur.Load()
	if s == nil {
		return
	}
	RaceDisable()
	s.mu.Lock()
	s.Records = append(s.Records, v)
	s.mu.Unlock()
	RaceEnable()
}

// Probe counts that a rare branch was reached.
//
//go:norace
func Probe(name string) {
	s := cur.Load()
	if s == nil {
		return
	}
	RaceDisable()
	s.mu.Lock()
	found := false
	for i := range s.ProbeNames {
		if s.ProbeNames[i] == name {
			s.ProbeCounts[i]++
			found = true
			break
		}
	}
	if !found {
		s.ProbeNames = append(s.ProbeNames, name)
		s.ProbeCounts = append(s.ProbeCounts, 1)
	}
	s.mu.Unlock()
	RaceEnable()
}
