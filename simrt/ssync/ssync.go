// Package ssync replaces "sync" in the instrumented copy of the code under test.
//
// Mutex and RWMutex are simulated: a task that cannot be granted the lock parks and the
// scheduler decides who gets it (a goroutine blocked on a real sync.Mutex is not "durably
// blocked" for synctest).  After the grant the embedded real mutex is locked as well, which by
// construction never blocks and gives the race detector the true happens-before edge.
// Outside a simulation everything delegates to the real sync package.
package ssync

import (
	"sync"

	"verif/simrt"
)

type (
	WaitGroup = sync.WaitGroup
	Once      = sync.Once
	Cond      = sync.Cond
	Map       = sync.Map
	Pool      = sync.Pool
	Locker    = sync.Locker
)

func NewCond(l Locker) *Cond { return sync.NewCond(l) }

// UsedLocks counts lock operations performed by simulated tasks (the lock-discipline monitor
// only evaluates held modes when the package under test uses ssync at all).
var UsedLocks int64

type state struct {
	writer  bool
	readers int
	// writers that have called Lock and are waiting: like sync.RWMutex, a pending Lock keeps new
	// readers out (so a goroutine that read-locks recursively can deadlock with a writer in between)
	writersWaiting int
	// number of write-lock releases so far: readers that were already waiting when a writer released
	// the lock are admitted before a writer that asks afterwards (sync.RWMutex hands the lock to the
	// readers that queued up during a write)
	releases int
}

// readReq is one pending RLock call.
type readReq struct {
	st  *state
	gen int // st.releases when the request was made
}

//go:norace
func (r *readReq) CanGrant(int) bool {
	return !r.st.writer && (r.st.writersWaiting == 0 || r.gen < r.st.releases)
}

//go:norace
func (r *readReq) Grant(int) { r.st.readers++ }

//go:norace
func (s *state) CanGrant(mode int) bool {
	if mode == 2 {
		return !s.writer && s.readers == 0
	}
	return !s.writer && s.writersWaiting == 0
}

//go:norace
func (s *state) Grant(mode int) {
	if mode == 2 {
		s.writer = true
		if s.writersWaiting > 0 {
			s.writersWaiting--
		}
	} else {
		s.readers++
	}
}

type Mutex struct {
	rw RWMutex
}

//go:norace
func (m *Mutex) Lock() { m.rw.Lock() }

//go:norace
func (m *Mutex) Unlock() { m.rw.Unlock() }

//go:norace
func (m *Mutex) TryLock() bool { m.rw.fresh(); return m.rw.real.TryLock() }

type RWMutex struct {
	st   *state
	real *sync.RWMutex
	ep   int64
	init sync.Mutex
}

// fresh (re-)initialises the lock the first time it is touched in a simulated run: a lock left
// held by a goroutine that an aborted earlier run abandoned must not block this run.
//
//go:norace
func (m *RWMutex) fresh() {
	e := simrt.Epoch()
	if m.real != nil && m.ep == e {
		return
	}
	m.init.Lock()
	if m.real == nil || m.ep != e {
		m.st = &state{}
		m.real = &sync.RWMutex{}
		m.ep = e
	}
	m.init.Unlock()
}

//go:norace
func (m *RWMutex) Lock() {
	m.fresh()
	st := m.st
	if simrt.StateLock() {
		st.writersWaiting++
		simrt.StateUnlock()
		if simrt.LockAcquire(st, 2, "ssync.RWMutex.Lock") {
			UsedLocks++
		} else if simrt.StateLock() {
			// not a simulated task: nobody will grant; undo the announcement
			st.writersWaiting--
			simrt.StateUnlock()
		}
	}
	m.real.Lock()
}

//go:norace
func (m *RWMutex) Unlock() {
	st, real := m.st, m.real
	real.Unlock()
	if simrt.StateLock() {
		st.writer = false
		st.releases++
		simrt.StateUnlock()
		simrt.LockReleased(st)
	}
}

//go:norace
func (m *RWMutex) RLock() {
	m.fresh()
	st := m.st
	gen := 0
	if simrt.StateLock() {
		gen = st.releases
		simrt.StateUnlock()
	}
	if simrt.LockAcquireVia(&readReq{st, gen}, st, 1, "ssync.RWMutex.RLock") {
		UsedLocks++
	}
	m.real.RLock()
}

//go:norace
func (m *RWMutex) RUnlock() {
	st, real := m.st, m.real
	real.RUnlock()
	if simrt.StateLock() {
		if st.readers > 0 {
			st.readers--
		}
		simrt.StateUnlock()
		simrt.LockReleased(st)
	}
}

func (m *RWMutex) RLocker() Locker { return (*rlocker)(m) }

type rlocker RWMutex

func (r *rlocker) Lock()   { (*RWMutex)(r).RLock() }
func (r *rlocker) Unlock() { (*RWMutex)(r).RUnlock() }
