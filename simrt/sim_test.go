package simrt_test

import (
	"fmt"
	"os"
	"testing"
	"time"

	"verif/simrt"
	"verif/simrt/ssync"
)

func toy(log *[]string) func() {
	return func() {
		var mu ssync.Mutex
		done := make(chan int)
		for i := 0; i < 3; i++ {
			i := i
			simrt.Go("spawn", func() {
				for k := 0; k < 3; k++ {
					simrt.Yield("a")
					mu.Lock()
					*log = append(*log, fmt.Sprintf("%d.%d", i, k))
					mu.Unlock()
				}
				if i == 1 {
					simrt.Yield("presleep")
					time.Sleep(500 * time.Millisecond)
					simrt.Yield("postsleep")
				}
				simrt.Yield("presend")
				done <- i
				simrt.Yield("postsend")
			})
		}
		for i := 0; i < 3; i++ {
			simrt.Yield("prerecv")
			<-done
			simrt.Yield("postrecv")
		}
	}
}

func TestDeterminism(t *testing.T) {
	seen := map[string]bool{}
	for seed := uint64(1); seed <= 200; seed++ {
		var a, b []string
		s1 := simrt.Run(t, simrt.Config{TraceCap: 100}, simrt.NewTape(seed), toy(&a))
		s2 := simrt.Run(t, simrt.Config{TraceCap: 100}, simrt.ReplayTape(s1.Sched.Rec), toy(&b))
		if fmt.Sprint(a) != fmt.Sprint(b) || s1.Outcome != "" || s2.Outcome != "" {
			t.Fatalf("seed %d: %v vs %v (%s %s)", seed, a, b, s1.Outcome, s2.Outcome)
		}
		if s1.Stats.SimNanos != int64(500*time.Millisecond) {
			t.Fatalf("sim time %d", s1.Stats.SimNanos)
		}
		seen[fmt.Sprint(a)] = true
	}
	if len(seen) < 50 {
		t.Fatalf("only %d distinct orders", len(seen))
	}
	t.Logf("%d distinct orders", len(seen))
}

func TestDeadlock(t *testing.T) {
	s := simrt.Run(t, simrt.Config{}, simrt.NewTape(1), func() {
		c := make(chan int)
		simrt.Go("x", func() { simrt.Yield("y") })
		simrt.Yield("before")
		<-c
	})
	if s.Outcome != "deadlock" {
		t.Fatalf("outcome %q", s.Outcome)
	}
	t.Log(s.Blocked)
}

func TestCrash(t *testing.T) {
	s := simrt.Run(t, simrt.Config{}, simrt.NewTape(1), func() {
		c := make(chan int)
		simrt.Go("x", func() { simrt.Yield("y"); var p *int; *p = 1 })
		<-c
	})
	if s.Outcome != "crash" || s.Crash == nil {
		t.Fatalf("outcome %q", s.Outcome)
	}
	t.Log(s.Crash.Value)
}

var shared int

func TestRacy(t *testing.T) {
	if os.Getenv("RACY") == "" {
		t.Skip()
	}
	simrt.Run(t, simrt.Config{}, simrt.NewTape(1), func() {
		done := make(chan int)
		for i := 0; i < 2; i++ {
			simrt.Go("w", func() { simrt.Yield("w1"); shared++; simrt.Yield("w2"); done <- 1 })
		}
		<-done
		<-done
	})
}

func TestNotRacy(t *testing.T) {
	var mu ssync.Mutex
	simrt.Run(t, simrt.Config{}, simrt.NewTape(1), func() {
		done := make(chan int)
		for i := 0; i < 2; i++ {
			simrt.Go("w", func() {
				simrt.Yield("w1")
				mu.Lock()
				shared++
				mu.Unlock()
				simrt.Yield("w2")
				done <- 1
			})
		}
		<-done
		<-done
		shared++
	})
	shared++
}
