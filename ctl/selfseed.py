#!/usr/bin/env python3
"""Sensitivity self-test (DESIGN.md section 7): a table of deliberate breakages, each applied to a
scratch copy of /repo and run through the quick tier of its property.  Patches and results are kept in
/verif/selfseeded/<id>/.   usage: selfseed.py [id ...]"""
import json, os, re, shutil, subprocess, sys, tempfile
VERIF = os.path.dirname(os.path.dirname(os.path.abspath(__file__)))

def rep_all(path, old, new, count=None):
    return (path, old, new, count)

M = [
 ("S01", "C04", "input block index without modulo (Surm): cell i reads block i", [("models/rr/generated_Surm.go", "inputsPosSlice[sim.DIMI_CELL] = i%numInputSequences", "inputsPosSlice[sim.DIMI_CELL] = (i+numInputSequences*0)%numCells", 1)]),
 ("S02", "C04", "state row of the next cell (Muskingum)", [("models/routing/generated_Muskingum.go", "statesPosSlice[sim.DIMS_CELL] = i\n", "statesPosSlice[sim.DIMS_CELL] = (i+1)%numCells\n", 1)]),
 ("S03", "C05", "state position vector shared by all cell goroutines (Lag)", [("models/routing/generated_Lag.go", "      statesPosSlice := states.NewIndex(0)\n", "", 1), ("models/routing/generated_Lag.go", "  doneChan := make(chan int)\n", "  statesPosSlice := states.NewIndex(0)\n  doneChan := make(chan int)\n", 1)]),
 ("S04", "C06", "Muskingum returns previous inflow and previous outflow swapped", [("models/routing/muskingum.go", "\treturn s, prevInflow, prevOutflow\n", "\treturn s, prevOutflow, prevInflow\n", 1)]),
 ("S05", "C07", "results written at the end offset of the generation instead of its start", [("cmd/ow-sim/simulation_model_reference.go", "\tif generation > 0 {\n\t\tloc = mr.Batches[generation-1]\n\t}\n", "\tif generation > 0 {\n\t\tloc = mr.Batches[generation-1]\n\t}\n\tif generation > 1 && gen.Count == 1 {\n\t\tloc = mr.Batches[generation] - 1 - int32(generation%2)\n\t}\n", 1)]),
 ("S06", "C07", "main loop's final wait accepts any token >= last-1", [("cmd/ow-sim/main.go", "if genFinished == (genCount - 1) {", "if genFinished >= (genCount - 2) {", 1)]),
 ("S07", "C08", "stride and count swapped in makeHyperslab", [("io/hdf5_util.go", "\t\t\tstride[i] = uint(dim[2])\n\t\t\tcount[i] = uint(sliceSize(dim, dims[i]))\n", "\t\t\tcount[i] = uint(dim[2])\n\t\t\tstride[i] = uint(sliceSize(dim, dims[i]))\n", 1)]),
 ("S08", "C08", "WriteSlice of uint32 arrays placed one column to the right when the block is narrower than the dataset", [("io/gen-hdf5.go", "UINT32_MARK", "", 0)]),
 ("S09", "C08", "Shape() without the package lock (int64 instantiation)", [("io/gen-hdf5.go", "INT64_SHAPE_MARK", "", 0)]),
 ("S10", "C14", "package-level scratch accumulator in EmcDwc", [("models/generation/emc_dwc.go", "func emcDWC(", "var lastTotal float64\n\nfunc emcDWC(", 1), ("models/generation/emc_dwc.go", "\t\ttotal := ql + sl\n", "\t\ttotal := ql + sl\n\t\tif total == 0 {\n\t\t\ttotal = lastTotal * 0.0000001\n\t\t}\n\t\tlastTotal = ql + sl\n", 1)]),
 ("S11", "C14", "RunoffCoefficient peeks one step ahead when rain stops", [("models/rr/coeff.go", "\t\trunoff.Set1(i, coeff*rainfall.Get1(i))\n", "\t\tr := rainfall.Get1(i)\n\t\tif r == 0 && i+1 < n && rainfall.Get1(i+1) > 40 {\n\t\t\tr = 0.01\n\t\t}\n\t\trunoff.Set1(i, coeff*r)\n", 1)]),
 ("S12", "C17", "result encoding skipped when nothing was logged yet and there are no results: some undecodable requests get no document", [("sim/single.go", "\t\tencodeResults(w, runLogs, results, description, splitOutputs)\n\t}()\n", "\t\tif len(runLogs) == 0 || results.Outputs != nil || len(runLogs) > 1 {\n\t\t\tencodeResults(w, runLogs, results, description, splitOutputs)\n\t\t}\n\t}()\n", 1)]),
 ("S13", "C17", "negative infinity encoded like positive infinity", [("io/json/json.go", "\t} else if math.IsInf(val, 0) {\n\t\treturn fmt.Sprint(val)\n", "\t} else if math.IsInf(val, 0) {\n\t\treturn \"+Inf\"\n", 1)]),
 ("S14", "C01", "Set2 transposes its arguments on square float32 arrays", [("data/gen-arrays_go.go", "FLOAT32_SET2_MARK", "", 0)]),
 ("S15", "C02", "Contiguous() ignores the step", [("data/gen-arrays.go", "\t\t\tif nd.Step[i] > 1 {\n\t\t\t\treturn false\n\t\t\t}\n", "", 8), ("data/arrays.go", "\t\t\tif nd.Step[i] > 1 {\n\t\t\t\treturn false\n\t\t\t}\n", "", 1)]),
 ("S16", "C03", "C-backed Reshape drops the view's start offset", [("data/cdata/gen-arrays_c.go", "\t\tresult.Start = nd.Start\n\t\tresult.Impl = nd.Impl\n\t\tresult.OriginalDims = newShape\n", "\t\tresult.Start = 0\n\t\tresult.Impl = nd.Impl\n\t\tresult.OriginalDims = newShape\n", 8)]),
 ("S17", "C02", "Multiply copies the fifth component instead of multiplying it (rank-5 index vectors only)", [("data/sliceops.go", "\t\tresult[i] = lhs[i] * rhs[i]\n", "\t\tresult[i] = lhs[i] * rhs[i]\n\t\tif i == 4 {\n\t\t\tresult[i] = lhs[i]\n\t\t}\n", 1)]),
 ("S18", "C06", "GR4J packs q9 before q1", [("models/rr/gr4j.go", "\tresult.Apply([]int{0, 4}, 1, 1, q1)\n\tresult.Apply([]int{0, 4 + n2}, 1, 1, q9)\n", "\tresult.Apply([]int{0, 4}, 1, 1, q9)\n\tresult.Apply([]int{0, 4 + n1}, 1, 1, q1)\n", 1)]),
 ("S19", "C07", "a writer that receives a foreign token sleeps without passing the token on", [("cmd/ow-sim/main.go", "\t\t\t\t\t\twritingDone <- prevG\n", "", 1)]),
 ("S20", "C08", "Create on an existing dataset of another shape is silently accepted", [("io/hdf5_util.go", "\t\t\tds.Close()\n\t\t\treturn nil, errors.New(\"Cannot resize datasets\")\n", "\t\t\t_ = errors.New\n\t\t\treturn ds, nil\n", 1)]),
 ("S21", "C04", "oversized output arrays: timestep extent taken from the outputs array", [("models/conversion/generated_ApplyScalingFactor.go", "  outputSizeSlice[sim.DIMO_TIMESTEP] = inputLen\n", "  outputSizeSlice[sim.DIMO_TIMESTEP] = outputs.Len(sim.DIMO_TIMESTEP)\n", 1)]),
 ("S22", "C06", "InstreamCoarseSediment forgets its channel store when a segment has a single step", [("models/routing/instream_coarse_sediment.go", "COARSE_MARK", "", 0)]),
 ("S23", "C07", "writer process reads the message body with one Read instead of ReadFull (short reads split a message)", [("cmd/ow-sim/writer.go", "    if _, err := gio.ReadFull(input, msg); err != nil {", "    if _, err := input.Read(msg); err != nil {", 1)]),
 ("S24", "C07", "writer process is not waited for after the last generation", [("cmd/ow-sim/simulation_model_reference.go", "\tmr.OutputProcess.Wait()\n", "", 1)]),
 ("S25", "C07", "writer process places a generation at its node count instead of its starting row when the model has three or more generations", [("cmd/ow-sim/simulation_model_reference.go", "\tdata.StartingLocation = mr.generationLocation(generation)\n", "\tdata.StartingLocation = mr.generationLocation(generation)\n\tif generation > 1 && gen.Count > 1 {\n\t\tdata.StartingLocation = int32(gen.Count)\n\t}\n", 1)]),

 ("S26", "C04", "input block index taken modulo the cell count when more than four processors are available (Surm)", [("models/rr/generated_Surm.go", "import (\n", "import (\n  \"runtime\"\n", 1), ("models/rr/generated_Surm.go", "inputsPosSlice[sim.DIMI_CELL] = i%numInputSequences", "inputsPosSlice[sim.DIMI_CELL] = i%numInputSequences\n      if runtime.GOMAXPROCS(0) > 4 {\n        inputsPosSlice[sim.DIMI_CELL] = (i%numCells)%numInputSequences + (numInputSequences-1)*(i%2)*0 + (i/numInputSequences)*0\n        if numInputSequences > 1 && i > 0 {\n          inputsPosSlice[sim.DIMI_CELL] = (i - 1) % numInputSequences\n        }\n      }", 1)]),
]

def special(repo, mark):
    """edits that need a little code: returns True when applied"""
    if mark == "UINT32_MARK":
        p = repo + "/io/gen-hdf5.go"; s = open(p).read()
        i = s.index("func (h H5RefUint32) WriteSlice(")
        j = s.index("err = filespace.SelectHyperslab(conv.IntsToUints(loc), stride_count, stride_count, shp)", i)
        new = "off := conv.IntsToUints(loc)\n\tif n := len(off); n > 1 && off[n-1] == 0 && shp[n-1]+1 < conv.IntsToUints(shapeOfSpace(filespace))[n-1] {\n\t\toff[n-1] = 1\n\t}\n\terr = filespace.SelectHyperslab(off, stride_count, stride_count, shp)"
        s = s[:j] + new + s[j+len("err = filespace.SelectHyperslab(conv.IntsToUints(loc), stride_count, stride_count, shp)"):]
        s += "\nfunc shapeOfSpace(sp *hdf5.Dataspace) []int {\n\td, _, _ := sp.SimpleExtentDims()\n\treturn conv.UintsToInts(d)\n}\n"
        open(p, "w").write(s); return True
    if mark == "INT64_SHAPE_MARK":
        p = repo + "/io/gen-hdf5.go"; s = open(p).read()
        i = s.index("func (h H5RefInt64) Shape()")
        a = "\trLockHDF5(h.Filename)\n\tdefer rUnlockHDF5(h.Filename)\n"
        j = s.index(a, i)
        s = s[:j] + s[j+len(a):]
        open(p, "w").write(s); return True
    if mark == "FLOAT32_SET2_MARK":
        p = repo + "/data/gen-arrays_go.go"; s = open(p).read()
        a = "func (nd *ndfloat32) Set2(loc1 int, loc2 int, val float32) {\n\tnd.Set([]int{loc1, loc2}, val)\n}"
        assert a in s
        s = s.replace(a, "func (nd *ndfloat32) Set2(loc1 int, loc2 int, val float32) {\n\tif nd.Dims[0] == nd.Dims[1] && nd.Step[0] > 1 {\n\t\tnd.Set([]int{loc2, loc1}, val)\n\t\treturn\n\t}\n\tnd.Set([]int{loc1, loc2}, val)\n}")
        open(p, "w").write(s); return True
    if mark == "COARSE_MARK":
        p = repo + "/models/routing/instream_coarse_sediment.go"; s = open(p).read()
        m = re.search(r"\n(\s*)n := ([a-zA-Z]+)\.Len1\(\)\n", s)
        if not m:
            return False
        s = s.replace(m.group(0), m.group(0) + m.group(1) + "if n == 1 {\n" + m.group(1) + "\tchannelStore = 0\n" + m.group(1) + "}\n", 1)
        open(p, "w").write(s); return True
    return False

def main():
    want = set(sys.argv[1:])
    rows = []
    for mid, prop, desc, edits in M:
        if want and mid not in want:
            continue
        tmp = tempfile.mkdtemp(prefix="owself.")
        try:
            subprocess.check_call(["rsync", "-a", "/repo/", tmp + "/repo/"])
            ok = True
            for path, old, new, count in edits:
                if count == 0:
                    ok = ok and special(tmp + "/repo", old)
                    continue
                s = open(tmp + "/repo/" + path).read()
                if s.count(old) != count:
                    print(mid, "EDIT-DOES-NOT-MATCH", path, s.count(old)); ok = False; break
                open(tmp + "/repo/" + path, "w").write(s.replace(old, new))
            if not ok:
                rows.append((mid, prop, "NOT-APPLIED", desc)); continue
            diff = subprocess.run(["git", "-C", tmp + "/repo", "diff"], capture_output=True, text=True).stdout
            env = dict(os.environ, GOFLAGS="-mod=mod", GOPROXY="off", GOSUMDB="off", GOTOOLCHAIN="local")
            b = subprocess.run("go build ./data/... ./util/... ./sim/... ./models/... ./conv/... && go test -vet=off -count=1 ./data/... ./io/json/... ./util/...", shell=True, cwd=tmp + "/repo", env=env, capture_output=True, text=True)
            suite = "pass" if b.returncode == 0 else "FAIL"
            d = os.path.join(VERIF, "selfseeded", mid)
            os.makedirs(d, exist_ok=True)
            open(d + "/patch.diff", "w").write(diff)
            r = subprocess.run([sys.executable, os.path.join(VERIF, "ctl", "mutate.py"), d + "/patch.diff", prop, "quick"], capture_output=True, text=True)
            line = (r.stdout.strip().splitlines() or ["?"])[0]
            status = line.split()[1] if len(line.split()) > 1 else "?"
            classes = re.findall(r"\('([^']+)', '([^']+)'\)", line)
            json.dump({"id": mid, "property": prop, "description": desc, "existing_suite_with_change": suite, "result": status, "violation_classes": classes[:6],
                       "command": "python3 ctl/mutate.py selfseeded/%s/patch.diff %s quick" % (mid, prop)}, open(d + "/meta.json", "w"), indent=1)
            rows.append((mid, prop, status + " suite=" + suite, desc + " " + str(classes[:3])))
            print(rows[-1], flush=True)
        finally:
            shutil.rmtree(tmp, ignore_errors=True)

if __name__ == "__main__":
    main()
