#!/usr/bin/env python3
"""Determinism self-test (DESIGN.md section 7): for every engine, N run indices are executed in
separate processes at GOMAXPROCS 1, 4 and 16, twice each; the per-run digests (workload tape,
schedule/fault tape, outcome, steps, switches, simulated time, task count, event sequence, protocol
trace) must be identical in all six processes.  Also greps the simulator for map iteration.

usage: selftest.py [N]     exit 0 = deterministic, 1 = divergence found
"""
import json, os, subprocess, sys, shutil, re
sys.path.insert(0, os.path.dirname(os.path.abspath(__file__)))
import check
from props import PROPS

def main():
    n = int(sys.argv[1]) if len(sys.argv) > 1 else 64
    bad = 0
    for d in ("simrt", "fakehdf5"):
        for root, _, files in os.walk(os.path.join(check.VERIF, d)):
            for f in files:
                if f.endswith(".go") and not f.endswith("_test.go"):
                    src = open(os.path.join(root, f)).read()
                    for m in re.finditer(r"range\s+[A-Za-z_.]*[mM]ap\b|\.Range\(|map\[", src):
                        line = src.count("\n", 0, m.start()) + 1
                        print("note: map use in %s/%s:%d: %s" % (d, f, line, src[m.start():m.start()+40].split("\n")[0]))
    scratch, _ = check.make_scratch()
    try:
        binary, msg = check.build(scratch, False)
        if binary is None:
            print(msg[-4000:]); return 2
        seen = set()
        todo = []
        for prop, cfg in sorted(PROPS.items()):
            todo.append((prop, cfg))
            for extra in cfg.get("also", []):
                c2 = dict(cfg, engine=extra["engine"])
                c2["env"] = dict(cfg.get("env", {}), **extra.get("env", {}))
                todo.append((prop, c2))
        for prop, cfg in todo:
            eng = cfg["engine"]
            if eng in seen:
                continue
            seen.add(eng)
            digests = []
            if eng == "owsingle":
                env2, msg = check.build_owsingle(scratch)
                if env2 is None:
                    print(msg[-3000:]); return 2
                cfg = dict(cfg, env=dict(cfg.get("env", {}), **env2))
            for cpu in (1, 4, 16):
                for rep in (0, 1):
                    out = "%s/st.%s.%d.%d.jsonl" % (scratch, eng, cpu, rep)
                    e = check.worker_env(prop, cfg, "quick", 7, 0, n, out, 600)
                    e["VERIF_DIGEST"] = "1"
                    cmd = [binary, "-test.run", "^TestWorker$", "-test.count=1", "-test.timeout", "1h", "-test.cpu", str(cpu)]
                    subprocess.run(cmd, env=e, cwd=scratch, stdout=subprocess.DEVNULL, stderr=subprocess.DEVNULL)
                    ds = {r["index"]: r["d"] for r in check.read_jsonl(out) if r.get("type") == "digest"}
                    digests.append(((cpu, rep), ds))
            base = digests[0][1]
            ok = len(base) == n
            for (cpu, rep), ds in digests[1:]:
                if ds != base:
                    ok = False
                    diff = [i for i in base if ds.get(i) != base[i]]
                    print("DIVERGENCE engine=%s GOMAXPROCS=%d rep=%d: %d of %d run digests differ (first index %s)" % (eng, cpu, rep, len(diff), n, diff[:1]))
            print("engine %-8s (%s): %d runs x 6 processes (GOMAXPROCS 1/4/16 x 2): %s" % (eng, prop, len(base), "identical" if ok else "DIFFERENT"))
            bad += 0 if ok else 1
    finally:
        shutil.rmtree(scratch, ignore_errors=True)
    return 1 if bad else 0

if __name__ == "__main__":
    sys.exit(main())
