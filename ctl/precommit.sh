#!/bin/sh
# Runs every registered quick check on the unchanged tree; prints one line per check; exit 1 if any
# check exits non-zero.  Run before committing changes to the machinery.
cd "$(dirname "$0")/.."
rc=0
for p in C01 C02 C03 C04 C05 C06 C07 C08 C14 C17; do
  out=$(./check $p quick 2>&1); code=$?
  echo "$p exit=$code $(echo "$out" | grep -v '^  \|^KNOWN' | tail -1)"
  [ $code -ne 0 ] && rc=1
done
exit $rc
