#!/usr/bin/env python3
"""Intake of one seeded change written by a sub-agent (wave 12 onwards):
copy /tmp/w<wave>/<PROP>/out/<LETTER> to seeded/<PROP>-<LETTER>, confirm it independently
(ctl/confirm_seeds.py in a private scratch worktree), evaluate it with the quick tier of its
property (ctl/mutate.py) and record both results in meta.json.

usage: wave.py <wave> <PROP> <LETTER> [also-check-with PROP,...]"""
import json, os, re, shutil, subprocess, sys
V = os.path.dirname(os.path.dirname(os.path.abspath(__file__)))

def main():
    wave, prop, letter = sys.argv[1], sys.argv[2], sys.argv[3]
    cid = "%s-%s" % (prop, letter)
    src = "/tmp/w%s/%s/out/%s" % (wave, prop, letter)
    dst = os.path.join(V, "seeded", cid)
    if not os.path.exists(dst):
        shutil.copytree(src, dst)
    mf = os.path.join(dst, "meta.json")
    m = json.load(open(mf))
    m.update({"id": cid, "wave": int(wave), "property": prop,
              "origin": "fresh sub-agent given only the property record, its own worktree, one-line summaries of the earlier changes for this property (to be different in kind) and an in-memory stand-in for the HDF5 binding so that io/ and cmd/ow-sim compile"})
    conf = "/tmp/conf-" + cid
    env = dict(os.environ, CONF_DIR=conf)
    r = subprocess.run([sys.executable, V + "/ctl/confirm_seeds.py", V + "/seeded", cid], env=env, capture_output=True, text=True)
    ok = (" CONFIRMED " in r.stdout) or r.stdout.startswith(cid + " CONFIRMED")
    m["confirmed"] = {"how": "ctl/confirm_seeds.py in a scratch worktree of /repo: demo passes without the change; patch applies; build + the 42-test suite pass with the change (demo file absent); io and cmd/ow-sim compile with the change (fake hdf5); demo fails with the change",
                      "result": "confirmed" if ok else "NOT confirmed", "detail": r.stdout.strip()[-1200:]}
    subprocess.run(["git", "-C", "/repo", "worktree", "remove", "--force", conf + "/wt"], capture_output=True)
    shutil.rmtree(conf, ignore_errors=True)
    json.dump(m, open(mf, "w"), indent=1)
    print(cid, "CONFIRMED" if ok else "NOT-CONFIRMED", flush=True)
    if not ok:
        print(r.stdout[-1500:], r.stderr[-500:])
        return 1
    props = prop if len(sys.argv) < 5 else sys.argv[4]
    r = subprocess.run([sys.executable, V + "/ctl/mutate.py", dst + "/patch.diff", props, "quick"], capture_output=True, text=True)
    line = (r.stdout.strip().splitlines() or ["?"])[0]
    status = line.split()[1] if len(line.split()) > 1 else "?"
    classes = re.findall(r"\('([^']+)', '([^']+)'\)", line)
    m["checked"] = {"command": "python3 ctl/mutate.py seeded/%s/patch.diff %s quick" % (cid, props), "result": status, "violation_classes": classes, "first": status}
    json.dump(m, open(mf, "w"), indent=1)
    print(cid, status, line[:300], flush=True)
    if status == "ERROR":
        print(r.stdout[-2500:])
    return 0

if __name__ == "__main__":
    sys.exit(main())
