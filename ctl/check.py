#!/usr/bin/env python3
"""Orchestrator: ./check <ID> quick|thorough   |   ./check <ID> --replay <file>

Copies /repo's working tree to a scratch directory, instruments it, builds the harness test
binary against it (go1.26.8, gonum hdf5 replaced by the fake), fans the simulated runs out over
worker processes, aggregates, confirms every violation by replaying it in a fresh process,
matches known findings, writes evidence/<ID>.json.

Exit codes: 0 property held on everything explored (KNOWN-FINDING lines allowed);
1 with "VIOLATION property=<id> replay=<path>"; 2 build/harness trouble (never a verdict).
"""
import json, os, shutil, subprocess, sys, tempfile, time, glob, re

VERIF = os.path.dirname(os.path.dirname(os.path.abspath(__file__)))
REPO = os.environ.get("VERIF_REPO", "/repo")
# evidence and replay files go to /verif unless a mutation evaluation redirects them
OUTDIR = os.environ.get("VERIF_OUT_DIR", VERIF)
GO = "go1.26.8"
NCPU = int(os.environ.get("VERIF_WORKERS") or (os.cpu_count() or 4))

ENV = dict(os.environ, GOFLAGS="-mod=mod", GOPROXY="off", GOSUMDB="off", GOTOOLCHAIN="local", CGO_ENABLED="1")

sys.path.insert(0, os.path.join(VERIF, "ctl"))
from props import PROPS  # noqa: E402


def die2(msg):
    print("HARNESS-ERROR:", msg, flush=True)
    sys.exit(2)


def run(cmd, cwd=None, env=None, timeout=None, capture=True):
    return subprocess.run(cmd, cwd=cwd, env=env or ENV, timeout=timeout,
                          stdout=subprocess.PIPE if capture else None,
                          stderr=subprocess.STDOUT if capture else None, text=True)


def ensure_tools():
    instr = os.path.join(VERIF, "bin", "instr")
    src = os.path.join(VERIF, "instr", "main.go")
    if not os.path.exists(instr) or os.path.getmtime(instr) < os.path.getmtime(src):
        os.makedirs(os.path.join(VERIF, "bin"), exist_ok=True)
        r = run(["go", "build", "-o", instr, "."], cwd=os.path.join(VERIF, "instr"))
        if r.returncode != 0:
            die2("cannot build instrumenter:\n" + r.stdout)
    return instr


def make_scratch(instrument=True):
    base = os.environ.get("VERIF_SCRATCH_BASE") or tempfile.gettempdir()
    scratch = tempfile.mkdtemp(prefix="owverif.", dir=base)
    r = run(["rsync", "-a", "--exclude", ".git", REPO + "/", scratch + "/repo/"])
    if r.returncode != 0:
        shutil.rmtree(scratch, ignore_errors=True)
        die2("cannot copy working tree: " + r.stdout)
    if instrument:
        r = run([ensure_tools(), scratch + "/repo"])
        if r.returncode != 0:
            shutil.rmtree(scratch, ignore_errors=True)
            die2("instrumenter failed:\n" + r.stdout)
        instr_stats = r.stdout.strip()
    else:
        instr_stats = "not instrumented"
    tmpl = open(os.path.join(VERIF, "harness", "go.mod.tmpl")).read().replace("@SCRATCH@", scratch).replace("@VERIF@", VERIF)
    open(scratch + "/go.mod", "w").write(tmpl)
    sums = open(os.path.join(REPO, "go.sum")).read()
    extra = os.path.join(VERIF, "harness", "go.sum.extra")
    if os.path.exists(extra):
        sums += open(extra).read()
    open(scratch + "/go.sum", "w").write(sums)
    return scratch, instr_stats


def build(scratch, race):
    out = scratch + ("/driver.race.test" if race else "/driver.test")
    cmd = [GO, "test", "-c", "-trimpath", "-modfile=" + scratch + "/go.mod", "-o", out]
    if race:
        cmd.append("-race")
    cmd.append("./driver")
    t0 = time.time()
    r = run(cmd, cwd=os.path.join(VERIF, "harness"), timeout=1800)
    if r.returncode != 0:
        return None, r.stdout
    return out, "built in %.1fs" % (time.time() - t0)


def build_owsingle(scratch):
    out = scratch + "/ow-single"
    if os.path.exists(out):
        return {"VERIF_OWSINGLE": out}, "ow-single already built"
    t0 = time.time()
    r = run([GO, "build", "-trimpath", "-modfile=" + scratch + "/go.mod", "-o", out,
             "github.com/flowmatters/openwater-core/cmd/ow-single"], cwd=os.path.join(VERIF, "harness"), timeout=1800)
    if r.returncode != 0:
        return None, r.stdout
    return {"VERIF_OWSINGLE": out}, "ow-single built in %.1fs" % (time.time() - t0)


def build_cabi(scratch):
    lib = scratch + "/libopenwater.so"
    drv = scratch + "/cdriver"
    if os.path.exists(lib) and os.path.exists(drv):
        return {"VERIF_CDRIVER": drv, "VERIF_LIBOW": lib}, "cabi already built"
    t0 = time.time()
    r = run([GO, "build", "-buildmode=c-shared", "-trimpath", "-modfile=" + scratch + "/go.mod", "-o", lib,
             "github.com/flowmatters/openwater-core/libopenwater"], cwd=os.path.join(VERIF, "harness"), timeout=1800)
    if r.returncode != 0:
        return None, r.stdout
    r = run(["gcc", "-O1", "-o", drv, os.path.join(VERIF, "cdriver", "driver.c"), "-ldl"])
    if r.returncode != 0:
        return None, r.stdout
    return {"VERIF_CDRIVER": drv, "VERIF_LIBOW": lib}, "libopenwater.so + cdriver built in %.1fs" % (time.time() - t0)


def worker_env(prop, cfg, tier, seed, lo, hi, out, budget, replay=None, race=False):
    e = dict(ENV, VERIF_PROP=prop, VERIF_ENGINE=cfg["engine"], VERIF_TIER=tier, VERIF_SEED=str(seed),
             VERIF_FROM=str(lo), VERIF_TO=str(hi), VERIF_OUT=out, VERIF_BUDGET_S=str(budget))
    for k, v in cfg.get("env", {}).items():
        e[k] = str(v)
    if replay:
        e["VERIF_REPLAY"] = replay
    if race:
        e["GORACE"] = "halt_on_error=1 exitcode=66 history_size=3"
    return e


def worker_cmd(binary):
    return [binary, "-test.run", "^TestWorker$", "-test.count=1", "-test.timeout", "6h", "-test.cpu", "1"]


def read_jsonl(path):
    out = []
    if os.path.exists(path):
        for line in open(path):
            line = line.strip()
            if line:
                try:
                    out.append(json.loads(line))
                except Exception:
                    pass
    return out


def replay_once(binary, prop, cfg, replay_path, scratch, race, tag):
    try:
        eng = json.load(open(replay_path)).get("engine") or cfg["engine"]
    except Exception:
        eng = cfg["engine"]
    cfg = dict(cfg, engine=eng)
    if eng == "cabi":
        env2, msg = build_cabi(scratch)
        if env2 is None:
            die2("cannot build libopenwater.so for the replay:\n" + msg[-3000:])
        cfg["env"] = dict(cfg.get("env", {}), **env2)
    if eng == "owsingle":
        env2, msg = build_owsingle(scratch)
        if env2 is None:
            die2("cannot build ow-single for the replay:\n" + msg[-3000:])
        cfg["env"] = dict(cfg.get("env", {}), **env2)
    out = "%s/replay.%s.jsonl" % (scratch, tag)
    log = out + ".log"
    e = worker_env(prop, cfg, "quick", 1, 0, 1, out, 600, replay=replay_path, race=race)
    with open(log, "w") as lf:
        p = subprocess.run(worker_cmd(binary), env=e, stdout=lf, stderr=subprocess.STDOUT, cwd=scratch, timeout=900)
    recs = [r for r in read_jsonl(out) if r.get("type") == "replay"]
    tail = open(log, errors="replace").read()[-6000:]
    return p.returncode, (recs[0] if recs else None), tail


def replay_range(binary, prop, cfg, v, scratch, race, tag):
    """Re-runs the run indices range_from..index in one fresh worker process and looks for the same
    violation at the same index (for violations that need the earlier runs of the same process)."""
    lo, hi = int(v.get("range_from", v["index"])), int(v["index"]) + 1
    out = "%s/range.%s.jsonl" % (scratch, tag)
    pcfg = dict(cfg, engine=v.get("engine") or cfg["engine"])
    if pcfg["engine"] == "cabi":
        env2, _ = build_cabi(scratch)
        pcfg["env"] = dict(pcfg.get("env", {}), **(env2 or {}))
    if pcfg["engine"] == "owsingle":
        env2, _ = build_owsingle(scratch)
        pcfg["env"] = dict(pcfg.get("env", {}), **(env2 or {}))
    e = worker_env(prop, pcfg, v.get("tier", "quick"), v.get("verif_seed", 1), lo, hi, out, 1200, race=race)
    with open(out + ".log", "w") as lf:
        subprocess.run(worker_cmd(binary), env=e, stdout=lf, stderr=subprocess.STDOUT, cwd=scratch, timeout=1800)
    for r in read_jsonl(out):
        if r.get("type") == "violation":
            rp = r["replay"]
            if rp.get("index") == v["index"] and rp.get("class") == v["class"] and rp.get("key") == v["key"]:
                return True
    return False


def load_known():
    p = os.path.join(VERIF, "known_findings.json")
    if not os.path.exists(p):
        return []
    return json.load(open(p)).get("findings", [])


def main():
    if len(sys.argv) < 3:
        print(__doc__)
        sys.exit(2)
    prop = sys.argv[1]
    if prop not in PROPS:
        die2("unknown or unclaimed property " + prop)
    cfg = PROPS[prop]
    if cfg.get("script"):
        # properties with their own driver script (C03's C-ABI part is composed in props)
        pass
    t_start = time.time()
    replay_mode = sys.argv[2] == "--replay"
    tier = os.environ.get("VERIF_TIER") or (sys.argv[2] if not replay_mode else "quick")
    if tier not in ("quick", "thorough"):
        die2("tier must be quick or thorough")
    seed = int(os.environ.get("VERIF_SEED", "1") or "1")

    scratch, instr_stats = make_scratch()
    try:
        rc = main2(prop, cfg, tier, seed, scratch, instr_stats, replay_mode, t_start)
    finally:
        if not os.environ.get("VERIF_KEEP_SCRATCH"):
            shutil.rmtree(scratch, ignore_errors=True)
    sys.exit(rc)


def main2(prop, cfg, tier, seed, scratch, instr_stats, replay_mode, t_start):
    binaries = {}
    notes = [instr_stats]
    want_race = [False] + ([True] if (cfg.get("race") or any(x.get("race") for x in cfg.get("also", []))) else [])
    for race in want_race:
        b, msg = build(scratch, race)
        if b is None:
            print(msg[-8000:])
            die2("harness does not build against the current working tree (see output above)")
        binaries[race] = b
        notes.append(("race " if race else "") + msg)

    if replay_mode:
        rp = os.path.abspath(sys.argv[3])
        rf = json.load(open(rp))
        race = bool(rf.get("race_build")) and True in binaries
        if rf.get("mode") == "range":
            ok = replay_range(binaries[race], prop, cfg, rf, scratch, race, "user")
            print("replay of run indices %s..%s in one process: %s" % (rf.get("range_from"), rf.get("index"), "REPRODUCED" if ok else "NOT-REPRODUCED"))
            return 1 if ok else 0
        code, rec, tail = replay_once(binaries[race], prop, cfg, rp, scratch, race, "user")
        if rf.get("class") == "data-race":
            ok = code == 66
            print("replay: exit=%d (66 = race detector fired)" % code)
            print(tail[-3000:])
            print("REPRODUCED" if ok else "NOT-REPRODUCED")
            return 1 if ok else 0
        if rec is None:
            print(tail[-3000:])
            if rf.get("class") == "worker-died" and code != 0:
                print("REPRODUCED (worker died again, exit=%d)" % code)
                return 1
            die2("replay produced no record (exit=%d)" % code)
        same = rec.get("class") == rf.get("class") and rec.get("key") == rf.get("key")
        print("replay: class=%r key=%r message=%s" % (rec.get("class"), rec.get("key"), rec.get("message")))
        print("REPRODUCED" if same else "NOT-REPRODUCED (recorded class=%r key=%r)" % (rf.get("class"), rf.get("key")))
        return 1 if same else 0

    tcfg = cfg[tier]
    total_runs = int(os.environ.get("VERIF_RUNS") or tcfg["runs"])
    budget = int(os.environ.get("VERIF_BUDGET_S") or tcfg.get("budget_s", 600))
    summaries, violations, harness_errors = [], [], []

    phases = [(False, total_runs, cfg["engine"], {})]
    if cfg.get("race"):
        rr = int(tcfg.get("race_runs", max(1, total_runs // 4)))
        phases.append((True, rr, cfg["engine"], {}))
    for extra in cfg.get("also", []):
        env3 = dict(extra.get("env", {}))
        if extra["engine"] == "owsingle":
            env2, msg = build_owsingle(scratch)
            if env2 is None:
                print(msg[-6000:])
                die2("cmd/ow-single does not build from the current working tree")
            notes.append(msg)
            env3.update(env2)
        phases.append((extra.get("race", False), int(extra["runs_" + tier]), extra["engine"], env3))
    if cfg.get("cabi"):
        env2, msg = build_cabi(scratch)
        if env2 is None:
            print(msg[-6000:])
            die2("libopenwater.so / cdriver do not build from the current working tree")
        notes.append(msg)
        phases.append((False, int(os.environ.get("VERIF_CABI_RUNS") or tcfg.get("cabi_runs", 300)), "cabi", env2))

    for race, nruns, engine, extra_env in phases:
        pcfg = dict(cfg, engine=engine, env=dict(cfg.get("env", {}), **extra_env))
        binary = binaries[race]
        nworkers = min(NCPU, max(1, nruns))
        chunk = (nruns + nworkers - 1) // nworkers
        pending = []  # (lo, hi)
        for w in range(nworkers):
            lo, hi = w * chunk, min(nruns, (w + 1) * chunk)
            if lo < hi:
                pending.append((lo, hi))
        wid = 0
        deaths = 0
        hangs = 0
        phase_deadline = time.time() + budget + 120
        while pending:
            batch, pending = pending[:NCPU], pending[NCPU:]
            procs = []
            for lo, hi in batch:
                wid += 1
                out = "%s/w%s%d.jsonl" % (scratch, "r" if race else "", wid)
                logp = out + ".log"
                lf = open(logp, "w")
                e = worker_env(prop, pcfg, tier, seed, lo, hi, out, max(5, int(phase_deadline - time.time() - 60)), race=race)
                p = subprocess.Popen(worker_cmd(binary), env=e, stdout=lf, stderr=subprocess.STDOUT, cwd=scratch)
                procs.append((p, lo, hi, out, logp, lf))
            for p, lo, hi, out, logp, lf in procs:
                try:
                    p.wait(timeout=max(10, phase_deadline - time.time()))
                except subprocess.TimeoutExpired:
                    p.kill()
                    p.wait()
                    harness_errors.append("worker %d-%d exceeded the watchdog" % (lo, hi))
                    lf.close()
                    continue
                lf.close()
                recs = read_jsonl(out)
                for r in recs:
                    if r.get("type") == "summary":
                        r["race"] = race
                        summaries.append(r)
                    elif r.get("type") == "violation":
                        r["replay"]["race_build"] = race
                        violations.append(r["replay"])
                if p.returncode != 0 and not any(r.get("type") == "summary" for r in recs):
                    # the worker died in the middle of a run: which one?
                    curf = out + ".cur"
                    idx, rseed = None, None
                    if os.path.exists(curf):
                        parts = open(curf).read().split()
                        if len(parts) == 2:
                            idx, rseed = int(parts[0]), int(parts[1])
                    tail = open(logp, errors="replace").read()[-8000:]
                    if idx is None:
                        harness_errors.append("worker %d-%d died before its first run (exit %d):\n%s" % (lo, hi, p.returncode, tail))
                        continue
                    if "harness panic in run index" in tail or "panic: harness:" in tail:
                        # a defect of the harness itself (generator, oracle), never a verdict
                        harness_errors.append("harness panic at run index %s:\n%s" % (idx, tail[-2500:]))
                        if idx + 1 < hi and len(harness_errors) < 5:
                            pending.append((idx + 1, hi))
                        continue
                    deaths += 1
                    hung = p.returncode == 3 and any(r.get("type") == "violation" and r["replay"].get("class") == "hang" and r["replay"].get("index") == idx for r in recs)
                    if hung:
                        # the worker's own watchdog reported the run as a hang and stopped: resume after it
                        hangs += 1
                        if hangs <= 8 and idx + 1 < hi and time.time() < phase_deadline - 30:
                            pending.append((idx + 1, hi))
                        elif idx + 1 < hi:
                            notes.append("phase %s: %d runs hung (resumed after at most 8, and only while the phase budget lasts); the rest of range %d-%d was not explored" % (engine, hangs, idx + 1, hi))
                        continue
                    is_race = race and p.returncode == 66
                    cls = "data-race" if is_race else "worker-died"
                    key = "race/" + race_key(tail) if is_race else "died/" + died_key(tail)
                    violations.append({"property": prop, "engine": engine, "class": cls, "key": key,
                                       "message": tail[-4000:], "verif_seed": seed, "index": idx, "run_seed": rseed, "tier": tier,
                                       "mode": "generate", "work": [], "sched": [], "race_build": race})
                    if deaths <= 40 and idx + 1 < hi and time.time() < phase_deadline - 30:
                        pending.append((idx + 1, hi))
                    elif idx + 1 < hi:
                        harness_errors.append("too many worker deaths; range %d-%d not explored" % (idx + 1, hi))

    # ---- confirm violations by replay in a fresh process, dedupe by (class,key) ----
    os.makedirs(os.path.join(OUTDIR, "replays"), exist_ok=True)
    known = [k for k in load_known() if k.get("property") == prop]
    confirmed, seen = [], set()
    for v in violations:
        ident = (v["class"], v["key"])
        if ident in seen:
            continue
        seen.add(ident)
        path = os.path.join(OUTDIR, "replays", "%s-%s-%d-%s.json" % (prop, re.sub(r"[^A-Za-z0-9_.-]+", "_", v["key"])[:60], seed, v["index"]))
        json.dump(v, open(path, "w"), indent=1)
        race = bool(v.get("race_build"))
        code, rec, tail = replay_once(binaries[race], prop, cfg, path, scratch, race, "c%d" % len(seen))
        if v["class"] == "data-race":
            ok = code == 66
        elif v["class"] == "worker-died":
            ok = code != 0 and rec is None
        else:
            ok = rec is not None and rec.get("class") == v["class"] and rec.get("key") == v["key"]
        if not ok and v.get("mode") == "tapes" and v["class"] not in ("data-race", "worker-died") and int(v.get("range_from", v["index"])) < int(v["index"]):
            # the run alone is clean: does the violation need the earlier runs of the same process
            # (state that survives in package-level variables)?  Re-run the worker's whole range.
            if replay_range(binaries[race], prop, cfg, v, scratch, race, "r%d" % len(seen)):
                v["mode"] = "range"
                v["message"] = (v.get("message") or "") + "\n(reproduces only after the earlier runs %s..%s of the same process: state survives between runs)" % (v.get("range_from"), int(v["index"]) - 1)
                json.dump(v, open(path, "w"), indent=1)
                ok = True
        if not ok:
            msg = "violation %s/%s (index %s) did not reproduce in a fresh process (exit %s, got %s)" % (v["class"], v["key"], v["index"], code, rec)
            if v["class"] == "worker-died" and code == 0:
                # a worker process that died once (e.g. killed for memory) but whose run replays
                # cleanly is not a statement about the property and not a defect of the harness
                # logic: recorded in evidence, does not fail the check
                notes.append("unreproducible worker death: " + msg[:300])
            else:
                harness_errors.append(msg)
            continue
        confirmed.append((v, path))

    new, known_hits = [], []
    for v, path in confirmed:
        k = match_known(known, v)
        if k:
            known_hits.append((k, v, path))
        else:
            new.append((v, path))

    write_evidence(prop, cfg, tier, seed, summaries, confirmed, new, known_hits, harness_errors, notes, time.time() - t_start)

    for k, v, path in known_hits:
        print("KNOWN-FINDING: property=%s %s [%s] replay=%s" % (prop, k["what"], k["key"], path))
    for v, path in new:
        print("VIOLATION property=%s replay=%s" % (prop, path))
        print("  class=%s key=%s" % (v["class"], v["key"]))
        print("  " + (v.get("message") or "")[:1500].replace("\n", "\n  "))
    if harness_errors:
        for h in harness_errors:
            print("HARNESS-ERROR:", h[:3000])
        if not new:
            return 2
    runs = sum(s["runs"] for s in summaries)
    print("%s %s: %d runs, %d distinct non-trivial, %d new violation(s), %d known finding(s), %.1fs" % (
        prop, tier, runs, len(set(h for s in summaries for h in (s.get("hashes") or []))), len(new), len(known_hits), time.time() - t_start))
    return 1 if new else 0


def race_key(tail):
    # first frame of the code under test in the report
    m = re.findall(r"openwater-core/([A-Za-z0-9_/.-]+\.go):\d+", tail)
    return m[0] if m else "unknown"


def died_key(tail):
    m = re.search(r"^(panic: .*|fatal error: .*)$", tail, re.M)
    s = m.group(1) if m else "unknown"
    return re.sub(r"0x[0-9a-f]+", "0x", s)[:80]


def match_known(known, v):
    for k in known:
        if k.get("status") != "known":
            continue
        if k.get("class") and k["class"] != v["class"]:
            continue
        if k["key"] == v["key"]:
            return k
    return None


def write_evidence(prop, cfg, tier, seed, summaries, confirmed, new, known_hits, harness_errors, notes, wall):
    agg = {}
    for f in ("runs", "evals", "nontrivial", "steps", "picks", "switches", "preemptions", "tasks", "clock_jumps", "lock_waits", "sim_ns", "checks"):
        agg[f] = sum(s.get(f, 0) for s in summaries)
    hashes = set()
    capped = False
    for s in summaries:
        hashes.update(s.get("hashes") or [])
        capped = capped or s.get("hashes_capped", False)
    pairs = set()
    for s in summaries:
        pairs.update(s.get("switch_pairs") or [])
    probes, faults, outcomes = {}, {}, {}
    for s in summaries:
        for d, src in ((probes, "probes"), (faults, "faults"), (outcomes, "outcomes")):
            for k, v in (s.get(src) or {}).items():
                d[k] = d.get(k, 0) + v
    samples = []
    for s in summaries:
        for smp in s.get("samples") or []:
            if len(samples) < 3:
                samples.append(smp)
    race_runs = sum(s["runs"] for s in summaries if s.get("race"))
    worker_wall = max([s.get("wall_s", 0) for s in summaries] or [0])
    ev = {
        "property_id": prop, "tier": tier, "seed": seed, "level": cfg["level"],
        "coverage": {
            "evaluations": agg["evals"],
            "distinct_nontrivial": len(hashes),
            "rule": cfg["rule"] + (" (distinct = distinct hash of the run's workload and schedule/fault tapes; per-worker hash sets are capped at 400000 entries, so the count is a lower bound when capped)" if capped else " (distinct = distinct hash of the run's workload and schedule/fault tapes)"),
            "samples": samples or [{"note": "no sample recorded"}],
            "simulated_runs": agg["runs"], "runs_under_race_detector": race_runs,
            "runs_per_hour": int(agg["runs"] / max(wall, 1e-9) * 3600), "evaluations_per_hour": int(agg["evals"] / max(wall, 1e-9) * 3600),
            "simulated_time_s": agg["sim_ns"] / 1e9,
            "scheduling_decisions": agg["steps"], "decisions_with_two_or_more_runnable_tasks": agg["picks"],
            "context_switches": agg["switches"], "preemptions": agg["preemptions"], "tasks_started": agg["tasks"],
            "clock_jumps": agg["clock_jumps"], "lock_waits": agg["lock_waits"],
            "distinct_switch_site_pairs": len(pairs),
            "individual_comparisons": agg["checks"],
            "fault_kinds_fired": faults, "rare_branch_probes": probes, "run_outcomes": outcomes,
            "components_real": cfg["real"], "components_stub": cfg["stub"],
            "not_evaluated": cfg.get("not_evaluated", []),
            "known_findings_hit": [k["key"] for k, _, _ in known_hits],
            "harness_errors": harness_errors[:5],
            "build": notes,
        },
        "assumptions": cfg["assumptions"],
        "wall_s": round(wall, 2),
        "violations": len(new),
    }
    os.makedirs(os.path.join(OUTDIR, "evidence"), exist_ok=True)
    json.dump(ev, open(os.path.join(OUTDIR, "evidence", prop + ".json"), "w"), indent=1)


if __name__ == "__main__":
    main()
