"""Per-property configuration of the checks (engine, budgets, evidence texts)."""

REAL_MODELS = ["models/* (all 41 wrappers and kernels, instrumented copy)", "sim", "data", "data/cdata", "util", "conv"]
STUB_NONE = ["none (no I/O in this property)"]
SIM_ASSUME = [
    "the go/ast instrumenter preserves semantics up to added scheduling points (its output is ordinary Go)",
    "testing/synctest quiescence detection and fake clock (go1.26.8)",
    "between two scheduling points a task runs atomically; justified by race-freedom, which the -race runs of C05 check",
    "parameter and input values come from /verif/harness/domains (each model's working regime); outside it kernels may panic by design",
    "cells of one Run call share a state-vector width (InitialiseStates sizes the state array from cell 0)",
]

PROPS_ARR_RULE = ''
PROPS_ARR_REAL = []
PROPS_ARR_ASSUME = []

PROPS = {
    "C04": {
        "engine": "cells", "level": "exploration", "race": False,
        "quick": {"runs": 4000, "budget_s": 120},
        "thorough": {"runs": 400000, "budget_s": 1500},
        "rule": "one run = one seeded workload (model, 1-6 cells, parameter-set and input-block counts in {1, N, coprime with N, N+1}, 1-24 timesteps, Go/C-backed arrays, oversized output arrays, model-initialised or warmed-up states) executed as tasks under the seeded scheduler and compared bit-for-bit with fresh one-cell runs; non-trivial = at least 2 cells and at least one scheduling decision with 2 or more runnable tasks",
        "real": REAL_MODELS, "stub": STUB_NONE, "assumptions": SIM_ASSUME,
    },
    "C05": {
        "engine": "cells", "level": "exploration", "race": True,
        "quick": {"runs": 600, "race_runs": 300, "budget_s": 150},
        "thorough": {"runs": 100000, "race_runs": 30000, "budget_s": 1500},
        "rule": "one run = one seeded workload (as C04) executed under K different seeded schedules (K=4 quick, 8 thorough; policies: uniform, run-to-block with preemption probability, PCT-style priorities, FIFO) each compared bit-for-bit with the sequential one-cell reference; the -race binary repeats runs with the simulator's hand-offs hidden from the detector, so any conflicting access pair unordered by the code's own synchronisation is reported on a serialised schedule; non-trivial = at least 2 cells and at least one decision with 2 or more runnable tasks",
        "real": REAL_MODELS, "stub": STUB_NONE,
        "assumptions": SIM_ASSUME + ["Go race detector (bounded shadow history)", "GOMAXPROCS independence follows from the scheduler releasing one task at a time; ow-sim's model goroutines and writer are covered by C07's runs (same scheduler), whose -race variant is part of C07's thorough tier"],
    },
    "C06": {
        "engine": "split", "level": "fault_enumeration", "race": False,
        "quick": {"runs": 640, "budget_s": 120},
        "thorough": {"runs": 60000, "budget_s": 1500},
        "rule": "one evaluation = one crash/restart schedule of one sampled case (stateful model, parameters in range, 2-32 timesteps, model-initialised or warmed-up states): for every case ALL single crash points t=1..T-1, the all-1-step segmentation and sampled 2-5-crash schedules are executed; a restart is a brand-new model object with parameters re-applied and the state vector carried through a Go array, a C buffer or an HDF5 write/load round trip on the fake disk; outputs and final states must equal the uninterrupted run to 1e-9 relative (1e-3 for StorageRouting, as the property grants); every evaluation restarts at least once, so all are non-trivial",
        "real": REAL_MODELS + ["io (H5RefFloat64 Write/Load for the hdf5-roundtrip medium)"], "stub": ["HDF5 library (fakehdf5, in-memory)"],
        "assumptions": SIM_ASSUME + ["fake HDF5 semantics (see fakehdf5/hdf5.go header)"],
    },
    "C14": {
        "engine": "pure", "level": "exploration", "race": False,
        "quick": {"runs": 3000, "budget_s": 120},
        "thorough": {"runs": 250000, "budget_s": 1500},
        "rule": "one run = one seeded history of 8-40 operations over 2-4 argument sets (model, 1-3 cells, parameter sets, inputs, states) and a pool of model objects: re-run on the same object, on a fresh object, after other models ran, after the caller overwrote the buffers of earlier calls, with the input series truncated at t or its tail replaced, as a continuation (a new argument set whose initial states are the final states of an earlier execution, executed at the hand-over and again later), and two models concurrently as tasks under the seeded scheduler; every execution is compared bit-for-bit with the first execution of the same arguments in that history; non-trivial = the history contains at least one re-execution after another operation",
        "real": REAL_MODELS, "stub": STUB_NONE, "assumptions": SIM_ASSUME + ["the pristine result of an argument set is its first execution on a fresh object within the same history (so that a replay in a fresh process sees the same history)"],
    },
    "C17": {
        "engine": "jsonrun", "level": "fault_enumeration", "race": False,
        "quick": {"runs": 800, "budget_s": 120},
        "thorough": {"runs": 80000, "budget_s": 1500},
        "rule": "one evaluation = one delivery of one seeded request (any catalogued model, any subset/superset/order of parameters and inputs, equal/unequal/missing series, unknown model, no name, non-finite recipes, split on/off) through a fault-injecting io.Reader: the complete document in seeded chunk sizes, trailing garbage, truncation at EVERY byte offset of the request (exhaustive per request), sampled single-byte corruption/insertion/deletion and a reader error in mid-stream; every delivery must return without a panic and write exactly one well-formed Log/RunResults document; complete valid requests must equal a direct one-cell run, name every defaulted parameter and missing input, and encode non-finite values as NaN/+Inf/-Inf; every delivery is distinct and exercises the decoder, so all count as non-trivial",
        "real": REAL_MODELS + ["sim.RunSingleModelJSON", "io/json"], "stub": ["stdin/stdout replaced by a fault-injecting reader and a recording writer"],
        "assumptions": SIM_ASSUME + ["encoding/json is used by the oracle to decide whether delivered bytes are a decodable request", "writer errors are not injected (an erroring writer cannot receive the promised document)"],
    },
    "C08": {
        "engine": "h5", "level": "exploration", "race": True,
        "quick": {"runs": 5000, "race_runs": 600, "budget_s": 150},
        "thorough": {"runs": 1000000, "race_runs": 100000, "budget_s": 1500},
        "rule": "one run = one seeded history of the real io.H5Ref<T> code over the fake HDF5 disk, in one of three configurations: (a) 6-30 sequential Create/Write/WriteSlice/Load/Shape/Exists/GetDatasets/GetGroups/LoadText operations over 1-2 files and 4 dataset paths, all 8 element types, 1-3 dims with extents 0-6, six in-memory source layouts, selections with start/stop/step incl. stop beyond the extent, checked operation by operation against a dataset-map model with a whole-disk comparison (exact footprints); (b) 2-4 concurrent client tasks under the seeded scheduler with disk latencies, the recorded history (<= 24 operations, unique written values, sequence-number stamps) checked with porcupine, plus the lock-discipline monitor (overlap of a mutating call with any other call; held lock modes); (c) sequential histories with injected open/create/read/write errors and torn writes under the narrowly relaxed oracle; non-trivial = at least two operations (sequential) or at least one scheduling decision with 2 or more runnable tasks (concurrent)",
        "real": ["io (all eight H5Ref<T> instantiations, hdf5_util.go)", "conv", "data", "data/cdata", "util"], "stub": ["HDF5 C library and gonum binding (fakehdf5: in-memory datasets, hyperslab selection, call log, fault plan, lock monitor)", "file namespace (os.Stat/os.Remove -> simulated)"],
        "assumptions": ["fake HDF5 semantics as listed in fakehdf5/hdf5.go (extent fixed at creation, zero fill, hyperslab = count blocks of block elements every stride, row-major pairing, no type conversion, absent/present errors); the real library cannot be consulted in this sandbox",
                        "data transfers of the fake are split by a scheduling point so that an unlocked concurrent call can observe a half-done transfer, as with a non-thread-safe library",
                        "behaviour under disk errors is not stated by the property: under faults only crash-freedom, lock release and absence of damage to other data are asserted; swallowed errors are counted as observations",
                        "testing/synctest, instrumenter (sync -> simulated sync), porcupine v1.3.0"],
    },
    "C07": {
        "engine": "owsim", "level": "exploration", "race": True,
        "quick": {"runs": 1200, "race_runs": 200, "budget_s": 150},
        "thorough": {"runs": 200000, "race_runs": 30000, "budget_s": 1500},
        "rule": "one run = one seeded model-graph file (1-4 model types, 1-5 generations, 0-4 nodes per model and generation incl. empty batches, links with fan-in and fan-out, models with and without stored inputs, 1-12 timesteps) and command line (-overwrite on an existing output, -outputs-for/-no-outputs-for/-inputs-for/-no-inputs-for, separate parameter/state/timeseries/final-state files, no output file) executed by the real ow-sim under the seeded scheduler with seeded disk latencies (0, 1 ms, 100 ms, 2 s per call on the fake clock), compared dataset by dataset and bit for bit with a sequential reference executor, plus exactly-once/before-return/no-reload accounting from the disk call log, liveness within the step and simulated-time caps and the lock monitor; non-trivial = at least one node and at least one scheduling decision with 2 or more runnable tasks",
        "real": ["cmd/ow-sim (run_simulation, runGeneration, writer goroutines, modelReference, writeProtobuf; run_writer of the child processes in the owsimext phases)", "io", "io/protobuf", "data", "sim", "models/*", "conv", "util"],
        "stub": ["HDF5 C library and gonum binding (fakehdf5)", "file namespace (os.Stat/os.Remove)", "os.Exit (recorded as an event)",
                 "os/exec, io.Pipe, os.Stdin, log.Fatal* in the owsimext phases (simrt/proc.go: child processes as task groups, the parent-child pipe as a bounded byte queue with short reads and delays)"],
        "assumptions": ["fake HDF5 semantics (fakehdf5/hdf5.go)", "destination models of links are taken from a list of models that tolerate any non-negative input",
                        "the default for writing final inputs is implementation-defined: asserted only where -inputs-for/-no-inputs-for speak, but whatever is written must equal the reference",
                        "disk errors are not injected here (the property is silent; ow-sim exits); only delays", "instrumenter, testing/synctest, Go race detector for the -race runs"],
        "not_evaluated": ["two models sent to the same external file (two processes writing one HDF5 file)", "death of a writer process (the property does not speak about it)"],
    },
    "C01": {
        "engine": "arrays", "level": "exploration", "race": False,
        "quick": {"runs": 20000, "budget_s": 120},
        "thorough": {"runs": 2000000, "budget_s": 1500},
        "rule": "one run = one seeded history of 15-60 operations over a pool of views cut from 1-3 root arrays (1-4 dims, extents 1-6 incl. 1-wide dims, one of the 8 element types), applied in lock-step to a Go-backed root, a C-backed root on guard-paged mmap memory with canaries, and a reference model that keeps flat storage plus each view's explicit offset list: Slice chains up to depth 4 with steps 1-3, Get/Set, Get1/Set1/Apply1, Get2/Set2, Get3/Set3, Apply, ApplySlice, CopyFrom (six source layouts), Unroll, Reshape/ReshapeFast, Contiguous, Maximum/Minimum, Scale/AddTo/ApplyFunc1, integer index helpers; after every write the whole backing stores (Go slice, C buffer, canaries) are compared with the reference store; non-trivial = the history created at least one view besides the roots" + "; C01 reports failures of view reads and write footprints",
        "real": ["data (all eight generated instantiations, arrayops, sliceops, arraysint)", "data/cdata (C-backed arrays)"], "stub": ["none (memory guards only)"], "assumptions": ["the reference model (flat storage + explicit offset lists per view) is the specification of a view", "overlapping source and destination in two-array operations are not generated (order of an overlapping copy is unspecified)", "step 0 and zero extents are not generated for Slice"],
    },
    "C02": {
        "engine": "arrays", "level": "exploration", "race": False,
        "quick": {"runs": 20000, "budget_s": 120},
        "thorough": {"runs": 2000000, "budget_s": 1500},
        "rule": "one run = one seeded history of 15-60 operations over a pool of views cut from 1-3 root arrays (1-4 dims, extents 1-6 incl. 1-wide dims, one of the 8 element types), applied in lock-step to a Go-backed root, a C-backed root on guard-paged mmap memory with canaries, and a reference model that keeps flat storage plus each view's explicit offset list: Slice chains up to depth 4 with steps 1-3, Get/Set, Get1/Set1/Apply1, Get2/Set2, Get3/Set3, Apply, ApplySlice, CopyFrom (six source layouts), Unroll, Reshape/ReshapeFast, Contiguous, Maximum/Minimum, Scale/AddTo/ApplyFunc1, integer index helpers; after every write the whole backing stores (Go slice, C buffer, canaries) are compared with the reference store; non-trivial = the history created at least one view besides the roots" + "; C02 reports failures of bulk operations, the contiguity predicate, reshape error contracts, aliasing of contiguous Go-backed views and the index helpers",
        "real": ["data (all eight generated instantiations, arrayops, sliceops, arraysint)", "data/cdata (C-backed arrays)"], "stub": ["none (memory guards only)"], "assumptions": ["the reference model (flat storage + explicit offset lists per view) is the specification of a view", "overlapping source and destination in two-array operations are not generated (order of an overlapping copy is unspecified)", "step 0 and zero extents are not generated for Slice"],
    },
    "C03": {
        "engine": "arrays", "level": "exploration", "race": False,
        "quick": {"runs": 20000, "budget_s": 120},
        "thorough": {"runs": 2000000, "budget_s": 1500},
        "rule": PROPS_ARR_RULE + "; C03 reports every observable difference between the C-backed and the Go-backed array (values, storage, panics/faults on the guard page, overwritten canaries)",
        "real": PROPS_ARR_REAL + ["libopenwater (C ABI, see cabi part)"], "stub": ["caller-owned C memory = anonymous mmap with a PROT_NONE guard page and canary slack"], "assumptions": PROPS_ARR_ASSUME,
    },
}

PROPS_ARR_RULE = PROPS["C01"]["rule"].split("; C01 reports")[0]
PROPS["C03"]["rule"] = PROPS_ARR_RULE + "; C03 reports every observable difference between the C-backed and the Go-backed array (values, storage, panics/faults on the guard page, overwritten canaries)"
PROPS["C03"]["real"] = PROPS["C01"]["real"] + ["libopenwater (C ABI) - see the cabi part of this check"]
PROPS["C03"]["assumptions"] = PROPS["C01"]["assumptions"] + ["C-ABI part: the library's goroutines are free-running (not under the scheduler); the Go-API reference is the one-cell Run of C04"]
PROPS["C03"]["cabi"] = True
PROPS["C03"]["quick"]["cabi_runs"] = 400
PROPS["C03"]["thorough"]["cabi_runs"] = 20000
PROPS["C03"]["rule"] += "; second part (cabi): each job = one seeded workload (catalogued model, 1-5 cells, parameter sets and input blocks in {1, N, coprime, N+1}, 1-40 timesteps, states passed or initialised by the library, with or without a states buffer) executed by libopenwater.so through the C ABI from a C driver on guard-paged buffers and compared bit for bit with the Go API"

# C05 also covers ow-sim's model goroutines and asynchronous writers: the owsim engine runs under
# the same scheduler, in the normal binary (schedule independence of the results) and in the
# -race binary (conflicting unsynchronised accesses)
PROPS["C05"]["race"] = True
PROPS["C05"]["also"] = [
    {"engine": "owsim", "race": False, "runs_quick": 600, "runs_thorough": 40000},
    {"engine": "owsim", "race": True, "runs_quick": 200, "runs_thorough": 15000},
]
PROPS["C05"]["rule"] += "; additional phases run the ow-sim engine of C07 (model goroutines per generation, asynchronous writer goroutines, seeded disk latencies) in the normal and in the -race binary"
PROPS["C05"]["real"] = PROPS["C05"]["real"] + ["cmd/ow-sim, io (ow-sim phases)"]
PROPS["C05"]["stub"] = ["HDF5 library (fakehdf5) in the ow-sim phases"]

PROPS["C17"]["rule"] += "; in addition every run converts a seeded float64 view (plain, gapped, stepped, nested; with NaN/+Inf/-Inf cells) with JsonSafeArray for every shift dimension and compares nesting and values"

# C03: the per-cell goroutines of a model run on C-backed arrays must be as race-free as on Go-backed
# ones: a phase of the cells engine in the -race binary with every array C-backed
PROPS["C03"]["also"] = [{"engine": "cells", "race": True, "runs_quick": 250, "runs_thorough": 30000, "env": {"VERIF_FORCE_C": "1"}},
                        {"engine": "cells", "race": False, "runs_quick": 400, "runs_thorough": 60000, "env": {"VERIF_FORCE_C": "1"}}]
PROPS["C03"]["rule"] += "; third part: the vectorised-Run workloads of C04 with every array (inputs, states, outputs, parameters) C-backed, under the seeded scheduler and in the -race binary"

for _p in ("C04", "C05", "C14", "C07"):
    PROPS[_p]["rule"] += "; in 20% of the runs the instrumented model kernels also yield before every statement (bounded to 1500 kernel-level scheduling points per run), so that cells/models interleave inside their kernels"

PROPS["C17"]["env"] = {"VERIF_RUN_TIMEOUT_S": 10}

# C17 supplementary phases: several requests answered concurrently (scheduler and -race binary)
PROPS["C17"]["also"] = [{"engine": "jsonconc", "race": False, "runs_quick": 150, "runs_thorough": 20000},
                        {"engine": "jsonconc", "race": True, "runs_quick": 100, "runs_thorough": 10000},
                        {"engine": "owsingle", "race": False, "runs_quick": 60, "runs_thorough": 3000}]
PROPS["C17"]["rule"] += "; a last phase starts the real ow-single program (cmd/ow-single) as an operating-system process with the request arriving through a pipe, from a regular file or (the empty request) from the null device: its standard output must be byte for byte what RunSingleModelJSON writes in-process, with exit status 0"
PROPS["C17"]["real"] = PROPS["C17"]["real"] + ["cmd/ow-single (as a real process, owsingle phase)"]
PROPS["C17"]["rule"] += "; a writer that fails in mid-answer is injected before some requests (its own answer is not asserted, the following ones are); supplementary phases answer 2-4 complete requests concurrently as tasks under the seeded scheduler and in the -race binary"

# C06 through the tool chain: ow-sim run in two parts with -final-states / -initial-states files
PROPS["C06"]["also"] = [{"engine": "owsimsplit", "race": False, "runs_quick": 250, "runs_thorough": 30000}]
PROPS["C06"]["rule"] += "; 35% of the cases hold 2-3 cells (state vectors of different width zero padded); an additional phase runs seeded ow-sim model graphs once for the whole period and once as two consecutive ow-sim runs connected by -final-states/-initial-states files on the fake disk, under the seeded scheduler"
PROPS["C06"]["real"] = PROPS["C06"]["real"] + ["cmd/ow-sim (hot-start phase)"]

# C07 with "-outputs model=file": results streamed to child writer processes (simulated processes
# and pipes, simrt/proc.go)
PROPS["C07"]["rule"] += "; additional phases (owsimext, normal and -race binary): the same graphs with -outputs model=file for a seeded subset of the models: parent, stdin copier and every 'ow-sim -writer' child run as simulated processes joined by pipes with seeded capacity (61, 509, 4096, 65536 bytes), short reads and reader delays; outputs and final inputs must appear in the model's own file, every child must have finished before ow-sim returns, nothing else may be written"
PROPS["C07"]["assumptions"] = PROPS["C07"]["assumptions"] + ["owsimext: the child shares the io package's lock table with the parent (one address space); the pipe model follows os/exec (copier goroutine + kernel pipe): a write to the io.Pipe returns when the copier has taken the data, the kernel pipe blocks when full, the parent's exit closes its pipe ends"]
PROPS["C07"]["also"] = [{"engine": "owsimext", "race": False, "runs_quick": 500, "runs_thorough": 60000},
                        {"engine": "owsimext", "race": True, "runs_quick": 120, "runs_thorough": 10000}]
