#!/usr/bin/env python3
"""Regenerates the 'seeded changes' tables of DESIGN.md (between the markers) from
seeded/*/meta.json and selfseeded/*/meta.json."""
import glob, json, os, re
V = os.path.dirname(os.path.dirname(os.path.abspath(__file__)))

def clip(s, n=170):
    s = " ".join(str(s).split())
    return s if len(s) <= n else s[:n-1] + "…"

rows = ["| id | wave | property | what the change does | needs to manifest | result | caught as |", "|---|---|---|---|---|---|---|"]
for f in sorted(glob.glob(V + "/seeded/*/meta.json")):
    m = json.load(open(f))
    ck = m.get("checked", {})
    cls = ", ".join(sorted({c[0] for c in ck.get("violation_classes", [])}))
    rows.append("| %s | %s | %s | %s | %s | %s | %s |" % (m.get("id"), m.get("wave"), m.get("property"), clip(m.get("summary", "")), clip(m.get("needs_to_manifest", ""), 140), ck.get("result", "?"), cls))
notes = []
for f in sorted(glob.glob(V + "/seeded/*/meta.json")):
    m = json.load(open(f))
    n = m.get("checked", {}).get("note")
    if n:
        notes.append("* **%s** - %s" % (m["id"], n))
rows2 = ["| id | property | deliberate breakage | existing suite | result | caught as |", "|---|---|---|---|---|---|"]
for f in sorted(glob.glob(V + "/selfseeded/*/meta.json")):
    m = json.load(open(f))
    cls = ", ".join(sorted({c[0] for c in m.get("violation_classes", [])}))
    rows2.append("| %s | %s | %s | %s | %s | %s |" % (m["id"], m["property"], clip(m["description"], 150), m["existing_suite_with_change"], m["result"], cls))
block = "<!-- SEEDED-TABLES-BEGIN -->\n\n#### Changes written by independent sub-agents (given only a property's text and a scratch worktree)\n\n" + "\n".join(rows) + \
    "\n\nMisses and what was strengthened:\n\n" + "\n".join(notes) + \
    "\n\n#### Sensitivity self-test (ctl/selfseed.py; deliberate breakages written by the author of the checks)\n\n" + "\n".join(rows2) + "\n\n<!-- SEEDED-TABLES-END -->"
p = V + "/DESIGN.md"
s = open(p).read()
if "<!-- SEEDED-TABLES-BEGIN -->" in s:
    s = re.sub(r"<!-- SEEDED-TABLES-BEGIN -->.*<!-- SEEDED-TABLES-END -->", lambda m: block, s, flags=re.S)
else:
    s += "\n\n### B.6 Seeded changes: which checks catch which changes\n\n" + block + "\n"
open(p, "w").write(s)
print("tables written:", len(rows) - 2, "agent changes,", len(rows2) - 2, "self-seeded")
