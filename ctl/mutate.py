#!/usr/bin/env python3
"""Evaluate a seeded change: apply <patch> to a scratch copy of /repo and run checks against it.

usage: mutate.py <patch.diff> <PROP>[,<PROP>...] [quick|thorough]
Prints one line per property: DETECTED / MISSED / ERROR, with the violation classes found.
Evidence and replays of these runs go to a temporary directory, never to /verif/evidence.
"""
import os, subprocess, sys, tempfile, shutil, re
VERIF = os.path.dirname(os.path.dirname(os.path.abspath(__file__)))

def main():
    patch, props = os.path.abspath(sys.argv[1]), sys.argv[2].split(",")
    tier = sys.argv[3] if len(sys.argv) > 3 else "quick"
    tmp = tempfile.mkdtemp(prefix="owmut.")
    try:
        subprocess.check_call(["rsync", "-a", "/repo/", tmp + "/repo/"])
        r = subprocess.run(["git", "-C", tmp + "/repo", "apply", "--whitespace=nowarn", patch], capture_output=True, text=True)
        if r.returncode != 0:
            # a later fix: commit may have touched neighbouring lines: try a three-way merge
            r = subprocess.run(["git", "-C", tmp + "/repo", "apply", "--3way", "--whitespace=nowarn", patch], capture_output=True, text=True)
        if r.returncode != 0:
            print("PATCH-DOES-NOT-APPLY", r.stderr[:500]); return 2
        env = dict(os.environ, VERIF_REPO=tmp + "/repo", VERIF_OUT_DIR=tmp + "/out")
        for p in props:
            r = subprocess.run([os.path.join(VERIF, "check"), p, tier], env=env, capture_output=True, text=True)
            out = r.stdout + r.stderr
            classes = sorted(set(re.findall(r"class=(\S+) key=(\S+)", out)))
            known = len(re.findall(r"^KNOWN-FINDING", out, re.M))
            status = {0: "MISSED", 1: "DETECTED", 2: "ERROR"}.get(r.returncode, "ERROR")
            print("%s %s exit=%d classes=%s known=%d | %s" % (p, status, r.returncode, classes[:6], known, out.strip().splitlines()[-1][:160] if out.strip() else ""))
            if status == "ERROR":
                print(out[-1500:])
    finally:
        shutil.rmtree(tmp, ignore_errors=True)

if __name__ == "__main__":
    sys.exit(main())
