#!/usr/bin/env python3
"""Confirm seeded changes independently: in a scratch worktree, (1) demo passes without the
change, (2) patch applies, (3) repository builds and its existing suite passes with the change,
(4) demo fails with the change.  usage: confirm_seeds.py <outdir> <ID>..."""
import json, os, re, subprocess, sys, shutil, glob
ENV = dict(os.environ, GOFLAGS="-mod=mod", GOPROXY="off", GOSUMDB="off", GOTOOLCHAIN="local")
CONF = os.environ.get("CONF_DIR", "/tmp/conf")
WT = CONF + "/wt"
STUBMOD = CONF + "/stub.mod"
# id -> (destination dir for the demo file, command)
TABLE = {
 "C01-A": ("data", "go test -vet=off -count=1 -run TestC01A ./data/"),
 "C01-B": ("data", "go test -vet=off -count=1 -run TestC01B ./data/"),
 "C02-A": ("data", "go test -vet=off -count=1 -run TestC02ADemo ./data/"),
 "C02-B": ("data", "go test -vet=off -count=1 -run TestC02BDemo ./data/"),
 "C03-A": ("data/cdata", "go test -vet=off -count=1 -run TestC03A ./data/cdata/"),
 "C03-B": (None, "%(out)s/demo/run.sh %(wt)s"),
 "C04-A": ("models", "go test -vet=off -count=1 -run TestC04A ./models/"),
 "C04-B": ("models", "go test -vet=off -count=1 -run TestC04B ./models/"),
 "C05-A": ("models/rr", "go test -vet=off -count=1 -run TestC05A ./models/rr/"),
 "C05-B": ("cmd/ow-sim", "go1.26.8 test -race -modfile=%(stub)s -vet=off -count=1 -run TestC05B ./cmd/ow-sim/"),
 "C06-A": ("models/routing", "go test -vet=off -count=1 -run TestC06A ./models/routing/"),
 "C06-B": ("models/storage", "go test -vet=off -count=1 -run TestC06B ./models/storage/"),
 "C07-A": ("cmd/ow-sim", "go1.26.8 test -modfile=%(stub)s -vet=off -count=1 -run TestC07A ./cmd/ow-sim/"),
 "C07-B": ("cmd/ow-sim", "go1.26.8 test -modfile=%(stub)s -vet=off -count=1 -run TestC07B ./cmd/ow-sim/"),
 "C08-A": ("io", "go1.26.8 test -modfile=%(stub)s -vet=off -count=1 -run TestC08ADemo ./io/"),
 "C08-B": ("io", "go1.26.8 test -modfile=%(stub)s -vet=off -count=1 -run TestC08BDemo ./io/"),
 "C14-A": ("models/functions", "go test -vet=off -count=1 -run TestC14A ./models/functions/"),
 "C14-B": ("models/routing", "go test -vet=off -count=1 -run TestC14B ./models/routing/"),
 "C17-A": ("cmd/ow-single", "go test -vet=off -count=1 -run TestC17A ./cmd/ow-single/"),
 "C17-B": ("io/json", "go test -vet=off -count=1 -run TestC17B ./io/json/"),
}

TABLE.update({
 "C01-C": ("data", "go test -vet=off -count=1 -run TestC01C ./data/"),
 "C01-D": ("data", "go test -vet=off -count=1 -run TestC01D ./data/"),
 "C02-C": ("data", "go test -vet=off -count=1 -run TestC02C ./data/"),
 "C02-D": ("data", "go test -vet=off -count=1 -run TestC02D ./data/"),
 "C03-C": ("data/cdata", "go test -vet=off -count=1 -run TestC03C ./data/cdata/"),
 "C03-D": ("data/cdata", "go test -vet=off -count=1 -run TestC03D ./data/cdata/"),
 "C04-C": ("models/routing", "go test -vet=off -count=1 -run TestC04C ./models/routing/"),
 "C04-D": ("models/functions", "go test -vet=off -count=1 -run TestC04D ./models/functions/"),
 "C05-C": ("models/routing", "go test -vet=off -count=1 -run TestC05C ./models/routing/"),
 "C05-D": ("cmd/ow-sim", "go1.26.8 test -modfile=%(stub)s -vet=off -count=1 -run TestC05D ./cmd/ow-sim/"),
 "C06-C": ("models/routing", "go test -vet=off -count=1 -run TestC06C ./models/routing/"),
 "C06-D": ("models/storage", "go test -vet=off -count=1 -run TestC06D ./models/storage/"),
 "C07-C": ("cmd/ow-sim", "go1.26.8 test -modfile=%(stub)s -vet=off -count=1 -run TestC07C ./cmd/ow-sim/"),
 "C07-D": ("cmd/ow-sim", "go1.26.8 test -modfile=%(stub)s -vet=off -count=1 -run TestC07D ./cmd/ow-sim/"),
 "C08-C": ("io", "go1.26.8 test -modfile=%(stub)s -vet=off -count=1 -run TestC08C ./io/"),
 "C08-D": ("io", "go1.26.8 test -modfile=%(stub)s -vet=off -count=1 -run TestC08D ./io/"),
 "C14-C": ("models/rr", "go test -vet=off -count=1 -run TestC14C ./models/rr/"),
 "C14-D": ("models/storage", "go test -vet=off -count=1 -run TestC14D ./models/storage/"),
 "C17-C": ("sim", "go test -vet=off -count=1 -run TestRequestDeliveredInPieces ./sim/"),
 "C17-D": ("sim", "go test -vet=off -count=1 -run TestSuppliedStatesDoNotChangeTheRun ./sim/"),
})

TABLE.update({
 "C01-E": ("data", "go test -vet=off -count=1 -run TestC01E ./data/"),
 "C01-F": ("data/cdata", "go test -vet=off -count=1 -run TestC01F ./data/cdata/"),
 "C02-E": ("data", "go test -vet=off -count=1 -run TestC02E ./data/"),
 "C02-F": ("data/cdata", "go test -vet=off -count=1 -run TestC02F ./data/cdata/"),
 "C03-E": ("data/cdata", "go test -vet=off -count=1 -run TestC03E ./data/cdata/"),
 "C03-F": ("libopenwater", "D=$(mktemp -d) && go build -buildmode=c-shared -o $D/libopenwater.so ./libopenwater/ && gcc -O1 -o $D/driver %(out)s/demo/c03f_driver.c -I$D -L$D -lopenwater -Wl,-rpath,$D && $D/driver; rc=$?; rm -rf $D; exit $rc"),
 "C04-E": ("models/conversion", "go test -vet=off -count=1 -run TestC04EDemo ./models/conversion/"),
 "C04-F": ("models/storage", "go test -vet=off -count=1 -run TestC04FDemo ./models/storage/"),
 "C05-E": ("models/storage", "go test -vet=off -count=1 -run TestC05E ./models/storage/"),
 "C05-F": ("cmd/ow-sim", "go1.26.8 test -race -modfile=%(stub)s -vet=off -count=1 -run TestC05F ./cmd/ow-sim/"),
 "C06-E": ("models/storage", "go test -vet=off -count=1 -run TestC06E ./models/storage/"),
 "C06-F": ("models/routing", "go test -vet=off -count=1 -run TestC06F ./models/routing/"),
 "C07-E": ("cmd/ow-sim", "go1.26.8 test -modfile=%(stub)s -vet=off -count=1 -run TestC07E ./cmd/ow-sim/"),
 "C07-F": ("cmd/ow-sim", "go1.26.8 test -modfile=%(stub)s -vet=off -count=1 -run TestC07F ./cmd/ow-sim/"),
 "C08-E": ("io", "go1.26.8 test -modfile=%(stub)s -vet=off -count=1 -run TestC08E ./io/"),
 "C08-F": ("io", "go1.26.8 test -modfile=%(stub)s -vet=off -count=1 -run TestC08F ./io/"),
 "C14-E": ("models/conversion", "go test -vet=off -count=1 -run TestC14E ./models/conversion/"),
 "C14-F": ("models/storage", "go test -vet=off -count=1 -run TestC14F ./models/storage/"),
 "C17-E": ("sim", "go test -race -vet=off -count=1 -run TestColdConcurrentRequests ./sim/"),
 "C17-F": ("sim", "go test -vet=off -count=1 -run TestAnswerAfterFailedWrite ./sim/"),
})

TABLE.update({
 "C01-G": ("data", "go test -vet=off -count=1 -run TestC01G ./data/"),
 "C01-H": ("data", "go test -vet=off -count=1 -run TestC01H ./data/"),
 "C02-G": ("data", "go test -vet=off -count=1 -run TestIDivModDemo ./data/"),
 "C02-H": ("data", "go test -vet=off -count=1 -run TestCopyFromBlockDemo ./data/"),
 "C03-G": ("data/cdata", "go test -vet=off -count=1 -run TestC03G ./data/cdata/"),
 "C04-G": ("c04demo", "go test -vet=off -count=1 ./c04demo/"),
 "C04-H": ("c04demo", "go test -vet=off -count=1 ./c04demo/"),
 "C03-H": (None, "D=$(mktemp -d) && go build -buildmode=c-shared -o $D/libopenwater.so ./libopenwater/ && gcc -O1 -o $D/demo %(out)s/demo/c03h_demo.c -ldl && $D/demo $D/libopenwater.so; rc=$?; rm -rf $D; exit $rc"),
 "C05-G": ("cmd/ow-sim", "go1.26.8 test -race -modfile=%(stub)s -vet=off -count=1 -run TestSpareOutputsDemo ./cmd/ow-sim/"),
 "C05-H": ("models/rr", "go test -vet=off -count=1 -run TestGR4J ./models/rr/"),
 "C06-G": ("models/rr", "go test -vet=off -count=1 -run TestC06G ./models/rr/"),
 "C06-H": ("cmd/ow-sim", "go1.26.8 test -modfile=%(stub)s -vet=off -count=1 -run TestC06H ./cmd/ow-sim/"),
 "C07-G": ("cmd/ow-sim", "go1.26.8 test -modfile=%(stub)s -vet=off -count=1 -run TestDemoC07G ./cmd/ow-sim/"),
 "C07-H": ("cmd/ow-sim", "go1.26.8 test -modfile=%(stub)s -vet=off -count=1 -run TestDemoC07H ./cmd/ow-sim/"),
 "C08-G": ("io", "go1.26.8 test -modfile=%(stub)s -vet=off -count=1 -run TestC08G ./io/"),
 "C14-G": ("models/rr", "go test -vet=off -count=1 -run TestC14G ./models/rr/"),
 "C14-H": ("models/routing", "go test -vet=off -count=1 -run TestC14H ./models/routing/"),
 "C17-G": ("sim", "go test -vet=off -count=1 -run TestC17G ./sim/"),
 "C17-H": ("sim", "go test -vet=off -count=1 -run TestC17H ./sim/"),
})

SUITE = "go build ./data/... ./util/... ./sim/... ./models/... ./conv/... ./libopenwater/ && go test -vet=off -count=1 ./data/... ./io/json/... ./util/..."

TABLE.update({
 "C01-I": ("data", "go test -vet=off -count=1 -run TestC01I ./data/"),
 "C01-J": ("data", "go test -vet=off -count=1 -run TestC01J ./data/"),
 "C02-I": ("data", "go test -vet=off -count=1 -run TestC02I ./data/"),
 "C02-J": ("data/cdata", "go test -vet=off -count=1 -run TestC02J ./data/cdata/"),
 "C03-I": ("data/cdata", "go test -vet=off -count=1 -run TestDemo ./data/cdata/"),
 "C03-J": ("libopenwater", "go test -vet=off -count=1 -run TestDemo ./libopenwater/"),
 "C04-I": ("models", "go test -vet=off -count=1 -run TestC04I ./models/"),
 "C04-J": ("models", "go test -vet=off -count=1 -run TestC04J ./models/"),
 "C05-I": ("models/functions", "go test -vet=off -count=1 -run TestDemoC05I ./models/functions/"),
 "C05-J": ("cmd/ow-sim", "go1.26.8 test -modfile=%(stub)s -vet=off -count=1 -run TestDemoC05J ./cmd/ow-sim/"),
 "C06-I": ("cmd/ow-sim", "go1.26.8 test -modfile=%(stub)s -vet=off -count=1 -run TestHotStart ./cmd/ow-sim/"),
 "C06-J": ("models/rr", "go test -vet=off -count=1 -run TestGR4JHotStartStateArrayKinds ./models/rr/"),
 "C07-I": ("cmd/ow-sim", "go1.26.8 test -modfile=%(stub)s -vet=off -count=1 -run TestSplitFileKeepsFinalInputsWithoutOutputs ./cmd/ow-sim/"),
 "C07-J": ("cmd/ow-sim", "go1.26.8 test -modfile=%(stub)s -vet=off -count=1 -run TestHeadwaterNode ./cmd/ow-sim/"),
 "C08-I": ("io", "go1.26.8 test -modfile=%(stub)s -vet=off -count=1 -run TestC08IDemo ./io/"),
 "C08-J": ("io", "go1.26.8 test -modfile=%(stub)s -vet=off -count=1 -run TestC08JDemo ./io/"),
 "C14-I": ("models/routing", "go test -vet=off -count=1 -run TestLagShortWindowManyCells ./models/routing/"),
 "C14-J": ("models/storage", "go test -vet=off -count=1 -run TestUnconfiguredStorageRepeatable ./models/storage/"),
 "C17-I": ("sim", "go test -vet=off -count=1 -run TestC17I ./sim/"),
 "C17-J": ("io/json", "rm -f io/json/c17j_runner_demo_test.go && go test -vet=off -count=1 -run TestC17J ./io/json/"),
})

TABLE.update({
 "C01-K": ("data/cdata", "go test -vet=off -count=1 -run TestC01K ./data/cdata/"),
 "C01-L": ("data", "go test -vet=off -count=1 -run TestC01L ./data/"),
 "C02-K": ("data", "go test -vet=off -count=1 -run TestC02K ./data/"),
 "C02-L": ("data", "go test -vet=off -count=1 -run TestC02L ./data/"),
 "C03-K": ("data/cdata", "go test -vet=off -count=1 -run TestC03K ./data/cdata/"),
 "C03-L": ("data/cdata", "go test -vet=off -count=1 -run TestC03L ./data/cdata/"),
 "C04-K": ("models", "go test -vet=off -count=1 -run TestC04K ./models/"),
 "C04-L": ("models", "go test -vet=off -count=1 -run TestC04L ./models/"),
 "C05-K": ("models", "go test -vet=off -count=1 -run TestC05K ./models/"),
 "C05-L": ("cmd/ow-sim", "go1.26.8 test -modfile=%(stub)s -vet=off -count=1 -run TestC05L ./cmd/ow-sim/"),
 "C06-K": ("models/routing", "go test -vet=off -count=1 -run TestC06K ./models/routing/"),
 "C06-L": ("cmd/ow-sim", "go1.26.8 test -modfile=%(stub)s -vet=off -count=1 -run TestC06L ./cmd/ow-sim/"),
 "C07-K": ("cmd/ow-sim", "go1.26.8 test -modfile=%(stub)s -vet=off -count=1 -run TestC07K ./cmd/ow-sim/"),
 "C07-L": ("cmd/ow-sim", "go1.26.8 test -modfile=%(stub)s -vet=off -count=1 -run TestC07L ./cmd/ow-sim/"),
 "C08-K": ("io", "go1.26.8 test -modfile=%(stub)s -vet=off -count=1 -run TestC08KDemo ./io/"),
 "C08-L": ("io", "go1.26.8 test -modfile=%(stub)s -vet=off -count=1 -run TestC08LDemo ./io/"),
 "C14-K": ("models/rr", "go test -vet=off -count=1 -run TestC14KDemo ./models/rr/"),
 "C14-L": ("models/routing", "go test -vet=off -count=1 -run TestC14LDemo ./models/routing/"),
 "C17-K": ("sim", "go test -vet=off -count=1 -run TestC17K ./sim/"),
 "C17-L": ("sim", "go test -vet=off -count=1 -run TestC17L ./sim/"),
})

TABLE.update({
 "C01-M": ("data", "go test -vet=off -count=1 -run TestC01M ./data/"),
 "C01-N": ("data", "go test -vet=off -count=1 -run TestC01N ./data/"),
 "C02-M": ("data", "go test -vet=off -count=1 -run TestDemoC02M ./data/"),
 "C02-N": ("data", "go test -vet=off -count=1 -run TestDemoC02N ./data/"),
 "C03-M": (None, 'B=$(mktemp -d) && go build -buildmode=c-shared -o $B/libopenwater.so ./libopenwater && gcc -O1 -pthread -o $B/demo %(out)s/demo/two_threads.c -I$B -L$B -lopenwater -lm && LD_LIBRARY_PATH=$B $B/demo; rc=$?; rm -rf $B; exit $rc'),
 "C03-N": (None, 'B=$(mktemp -d) && go build -buildmode=c-shared -o $B/libopenwater.so ./libopenwater && gcc -O1  -o $B/demo %(out)s/demo/truthy_flag.c -I$B -L$B -lopenwater -lm && LD_LIBRARY_PATH=$B $B/demo; rc=$?; rm -rf $B; exit $rc'),
 "C04-M": ("models/rr", "go test -vet=off -count=1 -run TestC04MDemo ./models/rr/"),
 "C04-N": ("models/routing", "go test -vet=off -count=1 -run TestC04NDemo ./models/routing/"),
 "C05-M": ("models", "go test -vet=off -count=1 -run TestC05M ./models/"),
 "C05-N": ("cmd/ow-sim", "go1.26.8 test -race -modfile=%(stub)s -vet=off -count=1 -run TestC05N ./cmd/ow-sim/"),
 "C06-M": ("models/routing", "go test -vet=off -count=1 -run TestFineSedimentHotStartDemo ./models/routing/"),
 "C06-N": ("cmd/ow-sim", "go1.26.8 test -modfile=%(stub)s -vet=off -count=1 -run TestVerboseHotStartDemo ./cmd/ow-sim/"),
 "C07-M": ("cmd/ow-sim", "go1.26.8 test -modfile=%(stub)s -vet=off -count=1 -timeout 120s -run TestC07M_Writer ./cmd/ow-sim/"),
 "C07-N": ("cmd/ow-sim", "go1.26.8 test -modfile=%(stub)s -vet=off -count=1 -run TestC07N ./cmd/ow-sim/"),
 "C08-M": ("io", "go1.26.8 test -modfile=%(stub)s -vet=off -count=1 -run TestC08MDemo ./io/"),
 "C08-N": ("io", "go1.26.8 test -modfile=%(stub)s -vet=off -count=1 -run TestC08NDemo ./io/"),
 "C14-M": ("models/functions", "go test -vet=off -count=1 -run TestDateGeneratorIndependentOfProcessTimeZone ./models/functions/"),
 "C14-N": ("models/routing", "go test -vet=off -count=1 -run TestStorageRoutingRepeatable ./models/routing/"),
 "C17-M": ("sim", "go test -vet=off -count=1 -run TestC17MSlowClient ./sim/"),
 "C17-N": ("cmd/ow-single", "go test -vet=off -count=1 -run TestC17NStdinKinds ./cmd/ow-single/"),
})

TABLE.update({
 "C01-O": ("data", "go test -vet=off -count=1 -run TestC01O ./data/"),
 "C01-P": ("data", "go test -vet=off -count=1 -run TestC01P ./data/"),
 "C02-O": ("data", "go test -vet=off -count=1 -run TestC02O ./data/"),
 "C02-P": ("data", "go test -vet=off -count=1 -run TestC02P ./data/"),
 "C03-O": ("libopenwater", "go test -vet=off -count=1 -run TestC03O ./libopenwater/"),
 "C03-P": ("data/cdata", "go test -vet=off -count=1 -run TestC03P ./data/cdata/"),
 "C04-O": ("c04odemo", "go test -vet=off -count=1 ./c04odemo/"),
 "C04-P": ("c04pdemo", "go test -vet=off -count=1 ./c04pdemo/"),
 "C05-O": ("models/conversion", "go test -race -vet=off -count=1 -run TestDemoTablesRace ./models/conversion/"),
 "C05-P": ("cmd/ow-sim", "go1.26.8 test -race -modfile=%(stub)s -vet=off -count=1 -run TestDemo ./cmd/ow-sim/"),
 "C06-O": ("models/routing", "go test -vet=off -count=1 -run TestHotStartConstituentDecayDrySpell ./models/routing/"),
 "C06-P": ("models/storage", "go test -vet=off -count=1 -run TestHotStartStorageEmptyReservoir ./models/storage/"),
 "C07-O": ("cmd/ow-sim", "go1.26.8 test -modfile=%(stub)s -vet=off -count=1 -run TestC07ODemo ./cmd/ow-sim/"),
 "C07-P": ("cmd/ow-sim", "go1.26.8 test -modfile=%(stub)s -vet=off -count=1 -run TestC07PDemo ./cmd/ow-sim/"),
 "C08-O": ("io", "go1.26.8 test -modfile=%(stub)s -vet=off -count=1 -run TestC08ODemo ./io/"),
 "C08-P": ("io", "go1.26.8 test -modfile=%(stub)s -vet=off -count=1 -run TestC08PDemo ./io/"),
 "C14-O": ("models/generation", "go test -vet=off -count=1 -run TestC14ODemo ./models/generation/"),
 "C14-P": ("models/rr", "go test -vet=off -count=1 -run TestC14PDemo ./models/rr/"),
 "C17-O": ("sim", "go test -vet=off -count=1 -run TestDemoC17O ./sim/"),
 "C17-P": ("sim", "go test -vet=off -count=1 -run TestDemoC17P ./sim/"),
})

TABLE.update({
 "C01-Q": ("data", "go test -vet=off -count=1 -run TestC01Q ./data/"),
 "C01-R": ("data/cdata", "go test -vet=off -count=1 -run TestC01R ./data/cdata/"),
 "C02-Q": ("data/cdata", "go test -vet=off -count=1 -run TestC02Q ./data/cdata/"),
 "C02-R": ("data/cdata", "go test -vet=off -count=1 -run TestC02R ./data/cdata/"),
 "C03-Q": ("data/cdata", "go test -vet=off -count=1 -run TestC03Q ./data/cdata/"),
 "C03-R": ("data/cdata", "go test -vet=off -count=1 -run TestC03R ./data/cdata/"),
 "C04-Q": ("models", "go test -vet=off -count=1 -run TestC04Q ./models/"),
 "C04-R": ("models", "go test -vet=off -count=1 -run TestC04R ./models/"),
 "C05-Q": ("models/storage", "go test -vet=off -count=1 -run TestC05Q ./models/storage/"),
 "C05-R": ("models/conversion", "go test -vet=off -count=1 -run TestC05R_ScalingForeignOutputs ./models/conversion/"),
 "C06-Q": ("models/rr", "go test -vet=off -count=1 -run TestC06Q ./models/rr/"),
 "C06-R": ("libopenwater", "go test -vet=off -count=1 -run TestC06R ./libopenwater/"),
 "C07-Q": ("cmd/ow-sim", "go1.26.8 test -modfile=%(stub)s -vet=off -count=1 -run TestDemoLinkCarryingNaN ./cmd/ow-sim/"),
 "C07-R": ("cmd/ow-sim", "go1.26.8 test -modfile=%(stub)s -vet=off -count=1 -timeout 120s -run TestDemoEmptyMiddleGeneration ./cmd/ow-sim/"),
 "C08-Q": ("io", "go1.26.8 test -modfile=%(stub)s -vet=off -count=1 -run TestC08QDemo ./io/"),
 "C08-R": ("io", "go1.26.8 test -modfile=%(stub)s -vet=off -count=1 -run TestC08RDemo ./io/"),
 "C14-Q": ("models/climate", "go test -vet=off -count=1 -run TestC14QDemo ./models/climate/"),
 "C14-R": ("models/storage", "go test -vet=off -count=1 -run TestC14RDemo ./models/storage/"),
 "C17-Q": ("sim", "go test -vet=off -count=1 -run TestC17QFirstEntryWins ./sim/"),
 "C17-R": ("sim", "go test -vet=off -count=1 -run TestC17RAlwaysAnswers ./sim/"),
})

TABLE.update({
 "C01-S": ("data", "go test -vet=off -count=1 -run TestC01S ./data/"),
 "C01-T": ("data/cdata", "go test -vet=off -count=1 -run TestC01T ./data/cdata/"),
 "C02-S": ("data", "go test -vet=off -count=1 -run TestC02S ./data/"),
 "C02-T": ("data", "go test -vet=off -count=1 -run TestC02T ./data/"),
 "C03-S": ("data/cdata", "go test -vet=off -count=1 -run TestDemoC03S ./data/cdata/"),
 "C03-T": ("data/cdata", "go test -vet=off -count=1 -run TestDemoC03T ./data/cdata/"),
 "C04-S": ("models/conversion", "go test -vet=off -count=1 -run TestC04SDemo ./models/conversion/"),
 "C04-T": ("models/routing", "go test -vet=off -count=1 -run TestC04TDemo ./models/routing/"),
 "C05-S": ("models/functions", "go test -race -vet=off -count=1 -run TestDemoSharedWindowed ./models/functions/"),
 "C05-T": ("cmd/ow-sim", "go1.26.8 test -modfile=%(stub)s -vet=off -count=1 -run TestDemoLinkOrder ./cmd/ow-sim/"),
 "C06-S": ("models/storage", "go test -vet=off -count=1 -run TestC06S ./models/storage/"),
 "C06-T": ("models/routing", "go test -vet=off -count=1 -run TestC06T ./models/routing/"),
 "C07-S": ("cmd/ow-sim", "go1.26.8 test -modfile=%(stub)s -vet=off -count=1 -run TestC07S ./cmd/ow-sim/"),
 "C07-T": ("cmd/ow-sim", "go1.26.8 test -modfile=%(stub)s -vet=off -count=1 -timeout 900s -run TestC07T ./cmd/ow-sim/"),
 "C08-S": ("io", "go1.26.8 test -modfile=%(stub)s -vet=off -count=1 -run TestC08SDemo ./io/"),
 "C08-T": ("io", "go1.26.8 test -modfile=%(stub)s -vet=off -count=1 -run TestC08TDemo ./io/"),
 "C14-S": ("models", "go test -vet=off -count=1 -run TestC14S ./models/"),
 "C14-T": ("models", "go test -vet=off -count=1 -run TestC14T ./models/"),
 "C17-S": ("sim", "go test -vet=off -count=1 -run TestC17S ./sim/"),
 "C17-T": ("sim", "go test -vet=off -count=1 -run TestC17T ./sim/"),
})

TABLE.update({
 "C05-U": ("util/fn", "go test -race -vet=off -count=1 -run TestC05U ./util/fn/"),
 "C05-V": ("models/rr", "go test -race -vet=off -count=1 -run TestC05V ./models/rr/"),
 "C07-U": ("cmd/ow-sim", "go1.26.8 test -gcflags=-lang=go1.21 -modfile=%(stub)s -vet=off -count=1 -run TestC07Demo ./cmd/ow-sim/"),
 "C07-V": ("cmd/ow-sim", "go1.26.8 test -modfile=%(stub)s -vet=off -count=1 -run TestC07Demo ./cmd/ow-sim/"),
 "C08-U": ("io", "go1.26.8 test -modfile=%(stub)s -vet=off -count=1 -run TestC08UDemo ./io/"),
 "C08-V": ("io", "go1.26.8 test -modfile=%(stub)s -vet=off -count=1 -run TestC08VDemo ./io/"),
 "C14-U": ("models/routing", "go test -vet=off -count=1 -run TestC14U ./models/routing/"),
 "C14-V": ("models/generation", "go test -vet=off -count=1 -run TestC14V ./models/generation/"),
})

TABLE.update({
 "C01-U": ("data", "go test -vet=off -count=1 -run TestC01U ./data/"),
 "C01-V": ("data", "go test -vet=off -count=1 -run TestC01V ./data/"),
 "C02-U": ("data", "go test -vet=off -count=1 -run TestC02UColumnToSeries ./data/"),
 "C02-V": ("data/cdata", "go test -vet=off -count=1 -run TestC02VExtremeAtEnd ./data/cdata/"),
 "C03-U": ("data/cdata", "go test -vet=off -count=1 -run TestDemoMinimumTieC03U ./data/cdata/"),
 "C03-V": ("libopenwater", "go test -vet=off -count=1 -run TestDemoOutputRowLengthC03V ./libopenwater/"),
 "C04-U": ("models/rr", "go test -vet=off -count=1 -run TestSacramentoRepeatable ./models/rr/"),
 "C04-V": ("models/functions", "go test -vet=off -count=1 -run TestSumCBackedOutputs ./models/functions/"),
 "C06-U": ("models/routing", "go test -vet=off -count=1 -run TestC06U ./models/routing/"),
 "C06-V": ("models/rr", "go test -vet=off -count=1 -run TestC06V ./models/rr/"),
 "C17-U": ("sim", "go test -vet=off -count=1 -run TestAnswersAfterFailedSetups ./sim/"),
 "C17-V": ("sim", "go test -vet=off -count=1 -run TestLargestFinite ./sim/"),
})

def sh(cmd, cwd=WT):
    r = subprocess.run(cmd, shell=True, cwd=cwd, env=ENV, capture_output=True, text=True)
    return r.returncode, (r.stdout + r.stderr)[-1500:]

def main():
    outdir = sys.argv[1]
    ids = sys.argv[2:] or sorted(TABLE)
    os.makedirs(CONF, exist_ok=True)
    if not os.path.exists(WT):
        subprocess.check_call(["git", "-C", "/repo", "worktree", "add", "--detach", WT, "HEAD"], stdout=subprocess.DEVNULL)
    open(STUBMOD, "w").write(open("/repo/go.mod").read() + "\nrequire verif/simrt v0.0.0\n\nreplace gonum.org/v1/hdf5 => /verif/fakehdf5\n\nreplace verif/simrt => /verif/simrt\n")
    shutil.copy("/repo/go.sum", CONF + "/stub.sum")
    results = {}
    for i in ids:
        out = os.path.join(outdir, i)
        if i in TABLE:
            dest, cmd = TABLE[i]
        else:
            # wave 12 onwards: the sub-agent's meta.json names the demo's package directory and command
            m = json.load(open(os.path.join(out, "meta.json")))
            dest, cmd = m.get("demo_dir"), m["demo_cmd"]
            cmd = re.sub(r"/tmp/w\d+/C\d+/stub\.mod", "%(stub)s", cmd)
            cmd = re.sub(r"/tmp/w\d+/C\d+/out/[A-Z]\b", "%(out)s", cmd)
            cmd = re.sub(r"/tmp/w\d+/C\d+/wt\b", "%(wt)s", cmd)
            cmd = re.sub(r"^\s*cd\s+%\(wt\)s\s*&&\s*", "", cmd)
            g = re.search(r"\bgo(1\.26\.8)? test [^;&|]*", cmd)
            if g and dest:  # keep only the test invocation (agents wrap it in cp/rm/export, which hides its exit status)
                cmd = g.group(0).strip()
            if dest: dest = dest.replace(WT + "/", "").strip("/").replace("./", "")
        cmd = cmd % {"out": out, "wt": WT, "stub": STUBMOD}
        sh("git checkout -- . && git clean -fdq")
        demos = [f for f in glob.glob(out + "/demo/*") if f.endswith(".go")]
        if dest:
            os.makedirs(os.path.join(WT, dest), exist_ok=True)
            for f in demos:
                shutil.copy(f, os.path.join(WT, dest))
        c0, o0 = sh(cmd)
        sh("git clean -fdq")  # the existing suite must be run unedited: remove the demo file
        ca, oa = sh("git apply --whitespace=nowarn %s/patch.diff" % out)
        cs, os_ = sh(SUITE)
        cb, ob = sh("go1.26.8 build -modfile=%s ./io/ ./cmd/ow-sim/" % STUBMOD)
        if dest:
            os.makedirs(os.path.join(WT, dest), exist_ok=True)
            for f in demos:
                shutil.copy(f, os.path.join(WT, dest))
        c1, o1 = sh(cmd)
        ok = c0 == 0 and ca == 0 and cs == 0 and cb == 0 and c1 != 0
        results[i] = {"demo_without_change": "pass" if c0 == 0 else "FAIL", "patch_applies": ca == 0, "existing_suite_with_change": "pass" if cs == 0 else "FAIL",
                      "stub_build_with_change": "pass" if cb == 0 else "FAIL", "demo_with_change": "fails" if c1 != 0 else "PASSES", "confirmed": ok, "command": cmd}
        print(i, "CONFIRMED" if ok else "NOT-CONFIRMED", results[i])
        if not ok:
            print("   without:", o0[-400:].replace("\n", " | "))
            print("   suite:", os_[-300:].replace("\n", " | "))
            print("   with:", o1[-400:].replace("\n", " | "))
    sh("git checkout -- . && git clean -fdq")
    json.dump(results, open(CONF + "/results.json", "w"), indent=1)

if __name__ == "__main__":
    main()
