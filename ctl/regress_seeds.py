#!/usr/bin/env python3
"""usage: regress_seeds.py [id ...]
Re-evaluates every seeded change (seeded/*/patch.diff, selfseeded/*/patch.diff) against the
current checks and prints a table; exit 1 if a change that is recorded as detected is now missed."""
import glob, json, os, re, subprocess, sys
V = os.path.dirname(os.path.dirname(os.path.abspath(__file__)))
bad = 0
only = set(sys.argv[1:])
for f in sorted(glob.glob(V + "/seeded/*/meta.json") + glob.glob(V + "/selfseeded/*/meta.json")):
    m = json.load(open(f))
    d = os.path.dirname(f)
    if only and m["id"] not in only:
        continue
    prop = m.get("check_with") or m["property"]
    expected = (m.get("checked", {}).get("result") or m.get("result") or "")
    r = subprocess.run([sys.executable, V + "/ctl/mutate.py", d + "/patch.diff", prop, "quick"], capture_output=True, text=True)
    line = (r.stdout.strip().splitlines() or ["?"])[0]
    status = line.split()[1] if len(line.split()) > 1 else "?"
    flag = ""
    if expected in ("DETECTED", "MISSED then DETECTED") and status != "DETECTED":
        flag = "  <-- REGRESSION"
        bad += 1
    print("%-8s %-4s recorded=%-22s now=%s%s" % (m["id"], prop, expected, status, flag), flush=True)
sys.exit(1 if bad else 0)
