// instr: source-to-source instrumenter for the scratch copy of openwater-core.
//
// usage: instr <scratch-repo-root>
//
// Purely syntactic (go/ast + go/printer).  See DESIGN.md section 4.1.  Any construct it cannot
// handle aborts with exit code 2 and a message naming the position.
package main

import (
	"bytes"
	"fmt"
	"go/ast"
	"go/parser"
	"go/printer"
	"go/token"
	"os"
	"path/filepath"
	"sort"
	"strconv"
	"strings"
)

const rtName = "verifsimrt"
const rtPath = "verif/simrt"
const ssyncPath = "verif/simrt/ssync"

// functions that get entry/exit protocol traces (C07); absent names are simply not traced
var traceFuncs = map[string]bool{
	"GetGeneration": true, "PurgeGeneration": true, "WriteData": true,
	"writeGeneration": true, "runGeneration": true,
}

type stats struct {
	Files, GoStmts, ChanYields, BodyYields, DeepYields, SyncImports, Exits, FSCalls, Traces, ProcRewrites int
}

var st stats

func fail(fset *token.FileSet, pos token.Pos, msg string) {
	fmt.Fprintf(os.Stderr, "instr: unsupported construct at %s: %s\n", fset.Position(pos), msg)
	os.Exit(2)
}

func main() {
	if len(os.Args) != 2 {
		fmt.Fprintln(os.Stderr, "usage: instr <repo-root>")
		os.Exit(2)
	}
	root := os.Args[1]
	var dirs []string
	for _, d := range []string{"sim", "io", "cmd/ow-sim"} {
		if fi, err := os.Stat(filepath.Join(root, d)); err == nil && fi.IsDir() {
			dirs = append(dirs, d)
		}
	}
	filepath.Walk(filepath.Join(root, "models"), func(p string, fi os.FileInfo, err error) error {
		if err == nil && fi.IsDir() {
			rel, _ := filepath.Rel(root, p)
			dirs = append(dirs, rel)
		}
		return nil
	})
	sort.Strings(dirs)
	for _, d := range dirs {
		ents, err := os.ReadDir(filepath.Join(root, d))
		if err != nil {
			continue
		}
		for _, e := range ents {
			n := e.Name()
			if e.IsDir() || !strings.HasSuffix(n, ".go") || strings.HasSuffix(n, "_test.go") {
				continue
			}
			if err := instrumentFile(root, filepath.Join(d, n), d == "cmd/ow-sim"); err != nil {
				fmt.Fprintf(os.Stderr, "instr: %s: %v\n", filepath.Join(d, n), err)
				os.Exit(2)
			}
		}
	}
	writeExports(root)
	fmt.Printf("instr: files=%d go=%d chan_yields=%d body_yields=%d deep_yields=%d sync_imports=%d exits=%d fs=%d traces=%d proc=%d\n",
		st.Files, st.GoStmts, st.ChanYields, st.BodyYields, st.DeepYields, st.SyncImports, st.Exits, st.FSCalls, st.Traces, st.ProcRewrites)
}

type fileCtx struct {
	fset    *token.FileSet
	rel     string
	usedRT  bool
	deep    bool // insert YieldDeep before every statement (model kernels)
	tmpN    int
	goLits  map[*ast.FuncLit]bool
	osAlias string
}

func (c *fileCtx) site(pos token.Pos) string {
	p := c.fset.Position(pos)
	return c.rel + ":" + strconv.Itoa(p.Line)
}

func (c *fileCtx) rtCall(fn string, args ...ast.Expr) *ast.CallExpr {
	c.usedRT = true
	return &ast.CallExpr{Fun: &ast.SelectorExpr{X: ast.NewIdent(rtName), Sel: ast.NewIdent(fn)}, Args: args}
}

func strLit(s string) ast.Expr { return &ast.BasicLit{Kind: token.STRING, Value: strconv.Quote(s)} }

func (c *fileCtx) yield(pos token.Pos, tag string) ast.Stmt {
	return &ast.ExprStmt{X: c.rtCall("Yield", strLit(c.site(pos)+tag))}
}

func instrumentFile(root, rel string, isOwSim bool) error {
	path := filepath.Join(root, rel)
	fset := token.NewFileSet()
	f, err := parser.ParseFile(fset, path, nil, parser.ParseComments)
	if err != nil {
		return err
	}
	// keep only comments before the package clause (build constraints); drop the rest so that
	// inserted nodes cannot be mis-associated with comments
	var keep []*ast.CommentGroup
	for _, cg := range f.Comments {
		if cg.End() < f.Package {
			keep = append(keep, cg)
		}
	}
	f.Comments = keep
	f.Doc = nil
	c := &fileCtx{fset: fset, rel: rel, goLits: map[*ast.FuncLit]bool{}}
	c.deep = strings.HasPrefix(rel, "models/")

	// imports
	for _, imp := range f.Imports {
		p, _ := strconv.Unquote(imp.Path.Value)
		if p == "sync" {
			imp.Path.Value = strconv.Quote(ssyncPath)
			if imp.Name == nil {
				imp.Name = ast.NewIdent("sync")
			}
			st.SyncImports++
		}
		if p == "os" {
			c.osAlias = "os"
			if imp.Name != nil {
				c.osAlias = imp.Name.Name
			}
		}
	}

	if isOwSim {
		if f.Name.Name != "main" {
			return fmt.Errorf("cmd/ow-sim is package %s, expected main", f.Name.Name)
		}
		f.Name.Name = "owsim"
		for _, d := range f.Decls {
			if fd, ok := d.(*ast.FuncDecl); ok && fd.Recv == nil && fd.Name.Name == "main" {
				fd.Name.Name = "VerifMain"
			}
		}
	}

	// pass 1: find function literals launched by go statements
	ast.Inspect(f, func(n ast.Node) bool {
		if g, ok := n.(*ast.GoStmt); ok {
			if fl, ok := g.Call.Fun.(*ast.FuncLit); ok {
				c.goLits[fl] = true
			}
		}
		return true
	})

	// pass 2: rewrite every function body
	for _, d := range f.Decls {
		fd, ok := d.(*ast.FuncDecl)
		if !ok || fd.Body == nil {
			continue
		}
		// a function that itself launches goroutines gets statement-level yields too, so that
		// the spawner interleaves with the tasks it has already started
		c.rewriteBlock(fd.Body, containsGo(fd.Body))
		if traceFuncs[fd.Name.Name] {
			c.addTrace(fd)
		}
	}
	// function literals in package-level var initialisers
	for _, d := range f.Decls {
		if gd, ok := d.(*ast.GenDecl); ok && gd.Tok == token.VAR {
			ast.Inspect(gd, func(n ast.Node) bool {
				if fl, ok := n.(*ast.FuncLit); ok {
					c.rewriteBlock(fl.Body, c.goLits[fl])
					return false
				}
				return true
			})
		}
	}

	// pass 3: os.Exit / os.Stat / os.Remove
	if c.osAlias != "" {
		ast.Inspect(f, func(n ast.Node) bool {
			call, ok := n.(*ast.CallExpr)
			if !ok {
				return true
			}
			sel, ok := call.Fun.(*ast.SelectorExpr)
			if !ok {
				return true
			}
			x, ok := sel.X.(*ast.Ident)
			if !ok || x.Name != c.osAlias || x.Obj != nil {
				return true
			}
			switch sel.Sel.Name {
			case "Exit":
				call.Fun = &ast.SelectorExpr{X: ast.NewIdent(rtName), Sel: ast.NewIdent("Exit")}
				c.usedRT = true
				st.Exits++
			case "Stat", "Remove":
				call.Fun = &ast.SelectorExpr{X: &ast.SelectorExpr{X: ast.NewIdent(rtName), Sel: ast.NewIdent("FS")}, Sel: ast.NewIdent(sel.Sel.Name)}
				c.usedRT = true
				st.FSCalls++
			}
			return true
		})
		// keep the os import used
		f.Decls = append(f.Decls, &ast.GenDecl{Tok: token.VAR, Specs: []ast.Spec{&ast.ValueSpec{
			Names: []*ast.Ident{ast.NewIdent("_")}, Values: []ast.Expr{&ast.SelectorExpr{X: ast.NewIdent(c.osAlias), Sel: ast.NewIdent("Args")}}}}})
	}

	// pass 3b (cmd/ow-sim only): child processes and pipes.  os/exec.Command, io.Pipe, os.Stdin and
	// log.Fatal* become their simulated counterparts (simrt/proc.go), types included.
	if isOwSim {
		alias := map[string]string{} // local name -> import path
		for _, imp := range f.Imports {
			p, _ := strconv.Unquote(imp.Path.Value)
			if p == "io" || p == "os/exec" || p == "os" || p == "log" {
				n := p[strings.LastIndex(p, "/")+1:]
				if imp.Name != nil {
					n = imp.Name.Name
				}
				alias[n] = p
			}
		}
		rename := map[string]map[string]string{
			"io":      {"Pipe": "IOPipe", "PipeWriter": "PipeWriter", "PipeReader": "PipeReader"},
			"os/exec": {"Command": "Command", "Cmd": "Cmd"},
			"os":      {"Stdin": "OSStdin"},
			"log":     {"Fatal": "Fatal", "Fatalf": "Fatalf", "Fatalln": "Fatalln"},
		}
		keeper := map[string]string{"io": "EOF", "os/exec": "ErrNotFound", "os": "Args", "log": "Println"}
		touched := map[string]bool{}
		ast.Inspect(f, func(n ast.Node) bool {
			sel, ok := n.(*ast.SelectorExpr)
			if !ok {
				return true
			}
			x, ok := sel.X.(*ast.Ident)
			if !ok || x.Obj != nil {
				return true
			}
			path, ok := alias[x.Name]
			if !ok {
				return true
			}
			if to, ok := rename[path][sel.Sel.Name]; ok {
				touched[x.Name] = true
				sel.X = ast.NewIdent(rtName)
				sel.Sel = ast.NewIdent(to)
				c.usedRT = true
				st.ProcRewrites++
			}
			return true
		})
		var names []string
		for n := range touched {
			names = append(names, n)
		}
		sort.Strings(names)
		for _, n := range names {
			f.Decls = append(f.Decls, &ast.GenDecl{Tok: token.VAR, Specs: []ast.Spec{&ast.ValueSpec{
				Names: []*ast.Ident{ast.NewIdent("_")}, Values: []ast.Expr{&ast.SelectorExpr{X: ast.NewIdent(n), Sel: ast.NewIdent(keeper[alias[n]])}}}}})
		}
	}

	if c.usedRT {
		imp := &ast.GenDecl{Tok: token.IMPORT, Specs: []ast.Spec{&ast.ImportSpec{Name: ast.NewIdent(rtName), Path: &ast.BasicLit{Kind: token.STRING, Value: strconv.Quote(rtPath)}}}}
		f.Decls = append([]ast.Decl{imp}, f.Decls...)
	}

	var buf bytes.Buffer
	cfg := printer.Config{Mode: printer.UseSpaces | printer.TabIndent, Tabwidth: 8}
	if err := cfg.Fprint(&buf, fset, f); err != nil {
		return err
	}
	// sanity: the output must parse
	if _, err := parser.ParseFile(token.NewFileSet(), path, buf.Bytes(), 0); err != nil {
		return fmt.Errorf("instrumented output does not parse: %v", err)
	}
	st.Files++
	return os.WriteFile(path, buf.Bytes(), 0644)
}

func containsGo(b *ast.BlockStmt) bool {
	found := false
	ast.Inspect(b, func(n ast.Node) bool {
		switch n.(type) {
		case *ast.FuncLit:
			return false
		case *ast.GoStmt:
			found = true
			return false
		}
		return !found
	})
	return found
}

// hasChanOp reports whether stmt's own expressions (not nested blocks, not nested function
// literals) contain a channel operation or a sleep.
func hasChanOp(s ast.Stmt) bool {
	found := false
	var visit func(n ast.Node) bool
	visit = func(n ast.Node) bool {
		if found || n == nil {
			return false
		}
		switch x := n.(type) {
		case *ast.FuncLit:
			return false
		case *ast.BlockStmt:
			if ast.Node(x) != ast.Node(s) {
				return false
			}
		case *ast.SendStmt:
			found = true
			return false
		case *ast.UnaryExpr:
			if x.Op == token.ARROW {
				found = true
				return false
			}
		case *ast.SelectStmt:
			found = true
			return false
		case *ast.CallExpr:
			if id, ok := x.Fun.(*ast.Ident); ok && id.Name == "close" {
				found = true
				return false
			}
			if sel, ok := x.Fun.(*ast.SelectorExpr); ok {
				if id, ok := sel.X.(*ast.Ident); ok && id.Name == "time" && (sel.Sel.Name == "Sleep" || sel.Sel.Name == "After" || sel.Sel.Name == "Tick") {
					found = true
					return false
				}
			}
		}
		return true
	}
	switch x := s.(type) {
	case *ast.BlockStmt:
		return false
	case *ast.IfStmt:
		if x.Init != nil {
			ast.Inspect(x.Init, visit)
		}
		ast.Inspect(x.Cond, visit)
	case *ast.ForStmt:
		if x.Init != nil {
			ast.Inspect(x.Init, visit)
		}
		if x.Cond != nil {
			ast.Inspect(x.Cond, visit)
		}
		if x.Post != nil {
			ast.Inspect(x.Post, visit)
		}
	case *ast.RangeStmt:
		ast.Inspect(x.X, visit)
	case *ast.SwitchStmt:
		if x.Init != nil {
			ast.Inspect(x.Init, visit)
		}
		if x.Tag != nil {
			ast.Inspect(x.Tag, visit)
		}
	case *ast.TypeSwitchStmt:
		if x.Init != nil {
			ast.Inspect(x.Init, visit)
		}
		ast.Inspect(x.Assign, visit)
	case *ast.LabeledStmt:
		return hasChanOp(x.Stmt)
	case *ast.GoStmt, *ast.DeferStmt:
		return false
	default:
		ast.Inspect(s, visit)
	}
	return found
}

// rewriteBlock instruments a statement list in place.  inGo: the list belongs to the body of a
// function literal launched by a go statement (statement-level yields).
func (c *fileCtx) rewriteBlock(b *ast.BlockStmt, inGo bool) {
	if b == nil {
		return
	}
	b.List = c.rewriteList(b.List, inGo)
}

func (c *fileCtx) rewriteList(list []ast.Stmt, inGo bool) []ast.Stmt {
	var out []ast.Stmt
	for _, s := range list {
		// recurse into nested statement lists and function literals first
		c.descend(s, inGo)
		if g, ok := s.(*ast.GoStmt); ok {
			if inGo {
				out = append(out, c.yield(s.Pos(), ""))
				st.BodyYields++
			}
			out = append(out, c.rewriteGo(g))
			continue
		}
		chanOp := hasChanOp(s)
		switch {
		case chanOp:
			out = append(out, c.yield(s.Pos(), "<"))
			st.ChanYields++
		case inGo:
			out = append(out, c.yield(s.Pos(), ""))
			st.BodyYields++
		case c.deep:
			// kernels: statement-level scheduling points that are active only in "deep" runs
			out = append(out, &ast.ExprStmt{X: c.rtCall("YieldDeep", strLit(c.site(s.Pos())))})
			st.DeepYields++
		}
		out = append(out, s)
		if chanOp {
			if _, isRet := s.(*ast.ReturnStmt); !isRet {
				out = append(out, c.yield(s.Pos(), ">"))
			}
		}
	}
	return out
}

// descend instruments the nested blocks of s and the function literals in its expressions.
func (c *fileCtx) descend(s ast.Stmt, inGo bool) {
	switch x := s.(type) {
	case *ast.BlockStmt:
		c.rewriteBlock(x, inGo)
	case *ast.IfStmt:
		c.lits(x.Init, x.Cond)
		c.rewriteBlock(x.Body, inGo)
		if x.Else != nil {
			switch e := x.Else.(type) {
			case *ast.BlockStmt:
				c.rewriteBlock(e, inGo)
			case *ast.IfStmt:
				c.descend(e, inGo)
			}
		}
	case *ast.ForStmt:
		c.lits(x.Init, x.Cond, x.Post)
		c.rewriteBlock(x.Body, inGo)
	case *ast.RangeStmt:
		c.lits(x.X)
		c.rewriteBlock(x.Body, inGo)
	case *ast.SwitchStmt:
		c.lits(x.Init, x.Tag)
		for _, cc := range x.Body.List {
			cl := cc.(*ast.CaseClause)
			cl.Body = c.rewriteList(cl.Body, inGo)
		}
	case *ast.TypeSwitchStmt:
		c.lits(x.Init, x.Assign)
		for _, cc := range x.Body.List {
			cl := cc.(*ast.CaseClause)
			cl.Body = c.rewriteList(cl.Body, inGo)
		}
	case *ast.SelectStmt:
		for _, cc := range x.Body.List {
			cl := cc.(*ast.CommClause)
			cl.Body = c.rewriteList(cl.Body, inGo)
		}
	case *ast.LabeledStmt:
		c.descend(x.Stmt, inGo)
	case *ast.GoStmt:
		// arguments may contain literals; the launched literal itself is handled in rewriteGo
		for _, a := range x.Call.Args {
			c.lits(a)
		}
	default:
		c.lits(s)
	}
}

// lits instruments the bodies of function literals found in the given nodes (not descending
// into nested statement blocks, which are handled by descend).
func (c *fileCtx) lits(nodes ...ast.Node) {
	for _, n := range nodes {
		if n == nil || isNilNode(n) {
			continue
		}
		ast.Inspect(n, func(m ast.Node) bool {
			if fl, ok := m.(*ast.FuncLit); ok {
				c.rewriteBlock(fl.Body, c.goLits[fl])
				return false
			}
			return true
		})
	}
}

func isNilNode(n ast.Node) bool {
	switch x := n.(type) {
	case ast.Stmt:
		return x == nil
	case ast.Expr:
		return x == nil
	}
	return false
}

func (c *fileCtx) tmp() *ast.Ident {
	c.tmpN++
	return ast.NewIdent("verifT" + strconv.Itoa(c.tmpN))
}

// rewriteGo turns `go f(a, b)` into
//
//	{ t1, t2 := a, b; verifsimrt.Go(site, func() { f(t1, t2) }) }
//
// so that arguments (and a non-literal function value) are evaluated by the parent at the go
// statement, as the language specifies.
func (c *fileCtx) rewriteGo(g *ast.GoStmt) ast.Stmt {
	st.GoStmts++
	call := g.Call
	var pre []ast.Stmt
	fun := call.Fun
	switch f := fun.(type) {
	case *ast.FuncLit:
		c.rewriteBlock(f.Body, true)
	case *ast.Ident:
		// plain function name: nothing to evaluate
	default:
		t := c.tmp()
		pre = append(pre, &ast.AssignStmt{Lhs: []ast.Expr{t}, Tok: token.DEFINE, Rhs: []ast.Expr{fun}})
		fun = t
	}
	var args []ast.Expr
	for _, a := range call.Args {
		t := c.tmp()
		pre = append(pre, &ast.AssignStmt{Lhs: []ast.Expr{t}, Tok: token.DEFINE, Rhs: []ast.Expr{a}})
		args = append(args, t)
	}
	inner := &ast.CallExpr{Fun: fun, Args: args, Ellipsis: call.Ellipsis}
	if call.Ellipsis != token.NoPos {
		inner.Ellipsis = 1
	}
	lit := &ast.FuncLit{Type: &ast.FuncType{Params: &ast.FieldList{}}, Body: &ast.BlockStmt{List: []ast.Stmt{&ast.ExprStmt{X: inner}}}}
	goCall := &ast.ExprStmt{X: c.rtCall("Go", strLit(c.site(g.Pos())), lit)}
	return &ast.BlockStmt{List: append(pre, goCall)}
}

// addTrace inserts entry and (deferred) exit traces: Trace(name, receiver, params...).
func (c *fileCtx) addTrace(fd *ast.FuncDecl) {
	var args []ast.Expr
	if fd.Recv != nil && len(fd.Recv.List) == 1 && len(fd.Recv.List[0].Names) == 1 {
		args = append(args, ast.NewIdent(fd.Recv.List[0].Names[0].Name))
	} else {
		args = append(args, ast.NewIdent("nil"))
	}
	for _, p := range fd.Type.Params.List {
		for _, n := range p.Names {
			if n.Name != "_" {
				args = append(args, ast.NewIdent(n.Name))
			}
		}
	}
	entry := &ast.ExprStmt{X: c.rtCall("Trace", append([]ast.Expr{strLit(fd.Name.Name)}, args...)...)}
	exit := &ast.DeferStmt{Call: c.rtCall("Trace", append([]ast.Expr{strLit(fd.Name.Name + ".done")}, args...)...)}
	fd.Body.List = append([]ast.Stmt{entry, exit}, fd.Body.List...)
	st.Traces++
}

// writeExports appends the files that make internals reachable from the harness.
func writeExports(root string) {
	if _, err := os.Stat(filepath.Join(root, "io", "hdf5_util.go")); err == nil {
		src := `package io

// appended by /verif/instr: exports for the harness, no behaviour change.

func VerifSliceSize(slice []int, size int) int { return sliceSize(slice, size) }

func VerifMakeHyperslab(slice [][]int, dims []int) (offset, stride, count, block []uint) {
	return makeHyperslab(slice, dims)
}
`
		must(os.WriteFile(filepath.Join(root, "io", "zz_verif_export.go"), []byte(src), 0644))
	}
	if _, err := os.Stat(filepath.Join(root, "cmd", "ow-sim", "main.go")); err == nil {
		src := `package owsim

// appended by /verif/instr: exports for the harness, no behaviour change.

type VerifFlagSet struct {
	Overwrite                                         bool
	OutputsFor, InputsFor, NoOutputsFor, NoInputsFor string
	Parameters, InitialStates, InputTimeseries       string
	FinalStates, SplitOutputs                        string
	Verbose                                          bool
}

func VerifSetFlags(f VerifFlagSet) {
	*overwrite = f.Overwrite
	*outputsFor = f.OutputsFor
	*inputsFor = f.InputsFor
	*noOutputsFor = f.NoOutputsFor
	*noInputsFor = f.NoInputsFor
	*parameterInputFile = f.Parameters
	*statesInputFile = f.InitialStates
	*timeseriesInputFile = f.InputTimeseries
	*statesOutputFile = f.FinalStates
	*splitOutputs = f.SplitOutputs
	*writerMode = false
	verbose = f.Verbose
}

func VerifRunSimulation(args []string) { run_simulation(args) }

// VerifChildMain is the main function of a child process started through os/exec (simulated):
// the flags are the ones the parent passes on the child's command line.
func VerifChildMain(args []string) {
	if len(args) >= 1 && args[0] == "-writer" {
		run_writer(args[1:])
		return
	}
	panic("ow-sim child started with an unsupported command line")
}
`
		must(os.WriteFile(filepath.Join(root, "cmd", "ow-sim", "zz_verif_export.go"), []byte(src), 0644))
	}
}

func must(err error) {
	if err != nil {
		fmt.Fprintln(os.Stderr, "instr:", err)
		os.Exit(2)
	}
}
