#!/bin/sh
# Builds the framework from files on disk only (offline) and warms the Go build cache.
set -e
export GOFLAGS=-mod=mod GOPROXY=off GOSUMDB=off GOTOOLCHAIN=local
cd "$(dirname "$0")"
mkdir -p bin evidence replays
(cd instr && go build -o ../bin/instr .)
# warm the build cache: one normal and one -race build of the harness against /repo
VERIF_RUNS=16 ./check C04 quick >/dev/null 2>&1 || true
VERIF_RUNS=16 ./check C05 quick >/dev/null 2>&1 || true
echo setup done
