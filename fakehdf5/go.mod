module gonum.org/v1/hdf5

go 1.25

require verif/simrt v0.0.0

replace verif/simrt => /verif/simrt
