// Package hdf5 is an in-memory stand-in for gonum.org/v1/hdf5 (module path replaced in the
// harness build).  It implements exactly the API subset openwater-core uses and is at the same
// time the simulator's disk: every call is a scheduling point, may take simulated time, may
// fail according to a fault plan, is logged, and is checked against the lock discipline.
//
// Semantics relied on (the real library cannot be consulted in this sandbox; listed as
// assumptions in evidence): a dataset's extent and element type are fixed at creation; new
// datasets are zero-filled; SelectHyperslab(start, stride, count, block) selects count blocks of
// block elements every stride elements per dimension (count==0 or block==0 selects nothing;
// stride==0, or count>1 with stride<block, or a selection beyond the extent is an error);
// a read/write pairs the selected file elements with the memory elements in row-major order and
// needs equal element counts; memory and file element types must be the same (gonum reads with
// the dataset's own type: no conversion); fixed-length strings read as NUL-padded bytes;
// opening something absent and creating something present are errors.
//
// All functions are //go:norace and keep their state in slices (no maps): the simulator hides
// its hand-offs from the race detector, so runtime-annotated map operations would be reported.
package hdf5

import (
	"errors"
	"reflect"
	"strings"
	"time"
	"unsafe"

	"verif/simrt"
	"verif/simrt/ssync"
)

const (
	F_ACC_RDONLY  int = 0x0000
	F_ACC_RDWR    int = 0x0001
	F_ACC_TRUNC   int = 0x0002
	F_ACC_EXCL    int = 0x0004
	F_ACC_DEBUG   int = 0x0008
	F_ACC_CREAT   int = 0x0010
	F_ACC_DEFAULT int = 0xffff
)

type GType int

const (
	H5G_UNKNOWN GType = -1
	H5G_GROUP   GType = 0
	H5G_DATASET GType = 1
	H5G_TYPE    GType = 2
	H5G_LINK    GType = 3
	H5G_UDLINK  GType = 4
)

type PropType int

const P_DATASET_CREATE PropType = 1

const (
	NoCompression      = 0
	DefaultCompression = -1
)

// ---------------------------------------------------------------- store

type node struct {
	name     string
	group    bool
	children []*node
	// dataset
	dims     []uint
	kind     reflect.Kind // element kind; reflect.String for fixed-length strings
	elemSize int
	raw      []byte
	deflate  bool
}

type fileObj struct {
	name    string
	root    *node
	open    int
	created int64 // call sequence number of creation
}

var files []*fileObj

// ---------------------------------------------------------------- simulator side

// Call is one logged library call.
type Call struct {
	Seq    int64
	Task   string
	Op     string
	File   string
	Path   string
	Mutate bool
	Elems  int
	Start  []uint // hyperslab of the file selection (nil = whole dataset)
	Count  []uint
	Block  []uint
	Stride []uint
	Err    bool
	SimNS  int64
}

// Violation of the lock discipline or of handle hygiene, found by the monitor.
type MonViolation struct {
	Kind string // "overlap", "no-lock", "shared-lock-for-mutation"
	Op   string
	Task string
	Msg  string
}

// FaultPlan: each armed call fails with probability Pct/100 while Budget lasts.
type FaultPlan struct {
	Pct    int
	Budget int
	Kinds  []string // fired kinds, in order
}

type Control struct {
	Tape       *simrt.Tape // latency and fault choices (the run's schedule/fault tape)
	Latency    bool
	Plan       *FaultPlan
	Monitor    bool
	Log        []Call
	Violations []MonViolation
	inside     []insideRec
	seq        int64
	Opens      int
	MaxOverlap int
}

type insideRec struct {
	task   string
	mutate bool
	op     string
}

var ctl = &Control{}

// Reset clears the disk and installs a fresh control block.
//
//go:norace
func Reset() *Control {
	files = nil
	ctl = &Control{}
	return ctl
}

//go:norace
func Ctl() *Control { return ctl }

var latencies = []time.Duration{0, time.Millisecond, 100 * time.Millisecond, 2 * time.Second}

type callCtx struct {
	idx    int
	mutate bool
	op     string
	task   string
}

var ErrInjected = errors.New("hdf5: injected fault")

// enter is called at the beginning of every library call: scheduling point, monitor, latency,
// fault decision.  It returns the fault kind to apply ("" for none).
//
//go:norace
func enter(op string, mutate bool, file, path string, faultKinds ...string) (callCtx, string) {
	c := ctl
	cc := callCtx{idx: -1, mutate: mutate, op: op}
	if simrt.Active() == nil {
		return cc, ""
	}
	cc.task = simrt.TaskKey()
	if c.Monitor {
		// lock discipline, part 1: which simulated locks does the caller hold?
		modes, known := simrt.HeldLocks()
		if known && ssync.UsedLocks > 0 {
			maxMode := 0
			for _, m := range modes {
				if m > maxMode {
					maxMode = m
				}
			}
			if maxMode == 0 {
				c.Violations = append(c.Violations, MonViolation{"no-lock", op, cc.task, "HDF5 call " + op + " made without holding the package lock (" + file + ":" + path + ")"})
			} else if mutate && maxMode < 2 {
				c.Violations = append(c.Violations, MonViolation{"shared-lock-for-mutation", op, cc.task, "mutating HDF5 call " + op + " made while holding the lock in shared mode only (" + file + ":" + path + ")"})
			}
		}
		// part 2, mechanism independent: is another task inside the library?
		for _, in := range c.inside {
			if in.task != cc.task && (in.mutate || mutate) {
				c.Violations = append(c.Violations, MonViolation{"overlap", op, cc.task, "task " + cc.task + " entered " + op + " while task " + in.task + " was inside " + in.op + " (one of them mutates)"})
				break
			}
		}
		if n := len(c.inside) + 1; n > c.MaxOverlap {
			c.MaxOverlap = n
		}
	}
	c.inside = append(c.inside, insideRec{cc.task, mutate, op})
	c.seq++
	c.Log = append(c.Log, Call{Seq: simrt.NextSeq(), Task: cc.task, Op: op, File: file, Path: path, Mutate: mutate, SimNS: int64(simrt.SimTime())})
	cc.idx = len(c.Log) - 1
	simrt.Yield("hdf5." + op + "<")
	if c.Latency && c.Tape != nil {
		if d := latencies[c.Tape.Choose(len(latencies))]; d > 0 {
			time.Sleep(d)
			simrt.Yield("hdf5." + op + "~")
		}
	}
	kind := ""
	if c.Plan != nil && c.Plan.Budget > 0 && len(faultKinds) > 0 && c.Tape != nil {
		// data transfers are rarer than opens: give them a higher rate so that write faults
		// (clean failures and torn writes) are exercised as often as open failures
		pct := c.Plan.Pct
		if op == "Write" {
			pct *= 5
		} else if op == "Read" {
			pct *= 2
		}
		if pct > 60 {
			pct = 60
		}
		if c.Tape.Choose(100) >= 100-pct {
			kind = faultKinds[c.Tape.Choose(len(faultKinds))]
			c.Plan.Budget--
			c.Plan.Kinds = append(c.Plan.Kinds, kind)
			c.Log[cc.idx].Err = true
		}
	}
	return cc, kind
}

//go:norace
func leave(cc callCtx) {
	if simrt.Active() == nil {
		return
	}
	simrt.Yield("hdf5." + cc.op + ">")
	c := ctl
	for i := len(c.inside) - 1; i >= 0; i-- {
		if c.inside[i].task == cc.task && c.inside[i].op == cc.op {
			// manual shift (runtime.slicecopy is race-annotated even in norace functions)
			for j := i; j+1 < len(c.inside); j++ {
				c.inside[j] = c.inside[j+1]
			}
			c.inside = c.inside[:len(c.inside)-1]
			break
		}
	}
}

//go:norace
func init() {
	simrt.FS.ExistsFn = FileExists
	simrt.FS.RemoveFn = RemoveFile
}

//go:norace
func findFile(name string) *fileObj {
	for _, f := range files {
		if f.name == name {
			return f
		}
	}
	return nil
}

// FileExists / RemoveFile back simrt.FS (os.Stat / os.Remove of the instrumented code).
//
//go:norace
func FileExists(name string) bool { return findFile(name) != nil }

//go:norace
func RemoveFile(name string) bool {
	for i, f := range files {
		if f.name == name {
			for j := i; j+1 < len(files); j++ {
				files[j] = files[j+1]
			}
			files = files[:len(files)-1]
			return true
		}
	}
	return false
}

// ---------------------------------------------------------------- API

func DisplayErrors(on bool) error { return nil }

type CommonFG struct {
	f *fileObj
	n *node
}

type File struct {
	CommonFG
	flags  int
	closed bool
}

type Group struct {
	CommonFG
}

type Dataset struct {
	f    *fileObj
	n    *node
	path string
}

type Dataspace struct {
	dims   []uint
	sel    bool
	none   bool
	offset []uint
	stride []uint
	count  []uint
	block  []uint
}

type Datatype struct {
	kind reflect.Kind
	size int
}

type PropList struct{ deflate bool }

//go:norace
func CreateFile(name string, flags int) (*File, error) {
	cc, fault := enter("CreateFile", true, name, "", "create-fails-disk-full")
	defer leave(cc)
	if fault != "" {
		return nil, ErrInjected
	}
	if f := findFile(name); f != nil {
		if flags&F_ACC_EXCL != 0 {
			return nil, errors.New("hdf5: file exists: " + name)
		}
		RemoveFile(name)
	}
	f := &fileObj{name: name, root: &node{name: "/", group: true}}
	files = append(files, f)
	f.open++
	ctl.Opens++
	return &File{CommonFG: CommonFG{f, f.root}, flags: F_ACC_RDWR}, nil
}

//go:norace
func OpenFile(name string, flags int) (*File, error) {
	cc, fault := enter("OpenFile", false, name, "", "open-fails")
	defer leave(cc)
	if fault != "" {
		return nil, ErrInjected
	}
	f := findFile(name)
	if f == nil {
		return nil, errors.New("hdf5: unable to open file " + name)
	}
	f.open++
	ctl.Opens++
	return &File{CommonFG: CommonFG{f, f.root}, flags: flags}, nil
}

//go:norace
func (f *File) Close() error {
	cc, _ := enter("File.Close", false, f.f.name, "")
	defer leave(cc)
	if !f.closed {
		f.closed = true
		f.f.open--
	}
	return nil
}

//go:norace
func (f *File) FileName() string { return f.f.name }

//go:norace
func (g *Group) Close() error {
	cc, _ := enter("Group.Close", false, g.f.name, "")
	defer leave(cc)
	return nil
}

//go:norace
func splitPath(p string) []string {
	var out []string
	for _, s := range strings.Split(p, "/") {
		if s != "" {
			out = append(out, s)
		}
	}
	return out
}

//go:norace
func (n *node) child(name string) *node {
	for _, c := range n.children {
		if c.name == name {
			return c
		}
	}
	return nil
}

//go:norace
func (g *CommonFG) lookup(path string) *node {
	n := g.n
	if strings.HasPrefix(path, "/") {
		n = g.f.root
	}
	for _, part := range splitPath(path) {
		if n == nil || !n.group {
			return nil
		}
		n = n.child(part)
	}
	return n
}

//go:norace
func (g *CommonFG) CreateGroup(name string) (*Group, error) {
	cc, fault := enter("CreateGroup", true, g.f.name, name, "create-fails-disk-full")
	defer leave(cc)
	if fault != "" {
		return nil, ErrInjected
	}
	parts := splitPath(name)
	if len(parts) == 0 {
		return nil, errors.New("hdf5: empty group name")
	}
	parent := g.n
	if strings.HasPrefix(name, "/") {
		parent = g.f.root
	}
	for _, p := range parts[:len(parts)-1] {
		parent = parent.child(p)
		if parent == nil || !parent.group {
			return nil, errors.New("hdf5: cannot create group " + name + ": missing intermediate group")
		}
	}
	last := parts[len(parts)-1]
	if parent.child(last) != nil {
		return nil, errors.New("hdf5: cannot create group " + name + ": name already exists")
	}
	n := &node{name: last, group: true}
	parent.children = append(parent.children, n)
	return &Group{CommonFG{g.f, n}}, nil
}

//go:norace
func (g *CommonFG) OpenGroup(name string) (*Group, error) {
	cc, fault := enter("OpenGroup", false, g.f.name, name, "open-fails")
	defer leave(cc)
	if fault != "" {
		return nil, ErrInjected
	}
	n := g.lookup(name)
	if n == nil || !n.group {
		return nil, errors.New("hdf5: cannot open group " + name)
	}
	return &Group{CommonFG{g.f, n}}, nil
}

//go:norace
func (g *CommonFG) OpenDataset(name string) (*Dataset, error) {
	cc, fault := enter("OpenDataset", false, g.f.name, name, "open-fails")
	defer leave(cc)
	if fault != "" {
		return nil, ErrInjected
	}
	n := g.lookup(name)
	if n == nil || n.group {
		return nil, errors.New("hdf5: cannot open dataset " + name)
	}
	return &Dataset{g.f, n, name}, nil
}

//go:norace
func (g *CommonFG) CreateDataset(name string, dtype *Datatype, dspace *Dataspace) (*Dataset, error) {
	return g.createDataset("CreateDataset", name, dtype, dspace, nil)
}

//go:norace
func (g *CommonFG) CreateDatasetWith(name string, dtype *Datatype, dspace *Dataspace, dcpl *PropList) (*Dataset, error) {
	return g.createDataset("CreateDatasetWith", name, dtype, dspace, dcpl)
}

//go:norace
func (g *CommonFG) createDataset(op, name string, dtype *Datatype, dspace *Dataspace, dcpl *PropList) (*Dataset, error) {
	cc, fault := enter(op, true, g.f.name, name, "create-fails-disk-full")
	defer leave(cc)
	if fault != "" {
		return nil, ErrInjected
	}
	if dtype == nil || dspace == nil {
		return nil, errors.New("hdf5: nil datatype or dataspace")
	}
	parts := splitPath(name)
	if len(parts) != 1 {
		// the real library can create intermediate groups only with a link creation property list
		return nil, errors.New("hdf5: cannot create dataset " + name + ": missing intermediate group")
	}
	if g.n.child(parts[0]) != nil {
		return nil, errors.New("hdf5: cannot create dataset " + name + ": name already exists")
	}
	total := 1
	for _, d := range dspace.dims {
		total *= int(d)
	}
	n := &node{name: parts[0], dims: append([]uint(nil), dspace.dims...), kind: dtype.kind, elemSize: dtype.size, raw: make([]byte, total*dtype.size)}
	if dcpl != nil {
		n.deflate = dcpl.deflate
	}
	g.n.children = append(g.n.children, n)
	return &Dataset{g.f, n, name}, nil
}

//go:norace
func (g *CommonFG) NumObjects() (uint, error) {
	cc, fault := enter("NumObjects", false, g.f.name, g.n.name, "read-fails")
	defer leave(cc)
	if fault != "" {
		return 0, ErrInjected
	}
	return uint(len(g.n.children)), nil
}

//go:norace
func (g *CommonFG) ObjectNameByIndex(idx uint) (string, error) {
	cc, _ := enter("ObjectNameByIndex", false, g.f.name, g.n.name)
	defer leave(cc)
	if int(idx) >= len(g.n.children) {
		return "", errors.New("hdf5: index out of range")
	}
	return g.n.children[idx].name, nil
}

//go:norace
func (g *CommonFG) ObjectTypeByIndex(idx uint) (GType, error) {
	cc, _ := enter("ObjectTypeByIndex", false, g.f.name, g.n.name)
	defer leave(cc)
	if int(idx) >= len(g.n.children) {
		return H5G_UNKNOWN, errors.New("hdf5: index out of range")
	}
	if g.n.children[idx].group {
		return H5G_GROUP, nil
	}
	return H5G_DATASET, nil
}

//go:norace
func (g *CommonFG) LinkExists(name string) bool {
	cc, _ := enter("LinkExists", false, g.f.name, name)
	defer leave(cc)
	return g.lookup(name) != nil
}

//go:norace
func (d *Dataset) Close() error {
	cc, _ := enter("Dataset.Close", false, d.f.name, d.path)
	defer leave(cc)
	return nil
}

//go:norace
func (d *Dataset) Space() *Dataspace {
	cc, _ := enter("Dataset.Space", false, d.f.name, d.path)
	defer leave(cc)
	return &Dataspace{dims: append([]uint(nil), d.n.dims...)}
}

//go:norace
func (d *Dataset) Datatype() (*Datatype, error) {
	cc, _ := enter("Dataset.Datatype", false, d.f.name, d.path)
	defer leave(cc)
	return &Datatype{d.n.kind, d.n.elemSize}, nil
}

//go:norace
func (s *Dataspace) Close() error {
	cc, _ := enter("Dataspace.Close", false, "", "")
	defer leave(cc)
	return nil
}

//go:norace
func CreateSimpleDataspace(dims, maxDims []uint) (*Dataspace, error) {
	cc, _ := enter("CreateSimpleDataspace", false, "", "")
	defer leave(cc)
	if maxDims != nil {
		if len(maxDims) != len(dims) {
			return nil, errors.New("hdf5: lengths of dims and maxDims don't match")
		}
		for i := range dims {
			if maxDims[i] < dims[i] {
				return nil, errors.New("hdf5: maxDims smaller than dims")
			}
		}
	}
	return &Dataspace{dims: append([]uint(nil), dims...)}, nil
}

//go:norace
func (s *Dataspace) SimpleExtentDims() (dims, maxdims []uint, err error) {
	cc, fault := enter("SimpleExtentDims", false, "", "", "read-fails")
	defer leave(cc)
	if fault != "" {
		return nil, nil, ErrInjected
	}
	return append([]uint(nil), s.dims...), append([]uint(nil), s.dims...), nil
}

//go:norace
func (s *Dataspace) SimpleExtentNDims() int { return len(s.dims) }

//go:norace
func (s *Dataspace) SelectHyperslab(offset, stride, count, block []uint) error {
	cc, _ := enter("SelectHyperslab", false, "", "")
	defer leave(cc)
	rank := len(s.dims)
	if len(offset) != rank || len(count) != rank || (stride != nil && len(stride) != rank) || (block != nil && len(block) != rank) {
		return errors.New("hdf5: hyperslab rank mismatch")
	}
	st := make([]uint, rank)
	bl := make([]uint, rank)
	none := false
	for i := 0; i < rank; i++ {
		st[i], bl[i] = 1, 1
		if stride != nil {
			st[i] = stride[i]
		}
		if block != nil {
			bl[i] = block[i]
		}
		if st[i] == 0 {
			return errors.New("hdf5: invalid stride==0 value")
		}
		if count[i] == 0 || bl[i] == 0 {
			none = true
			continue
		}
		if count[i] > 1 && st[i] < bl[i] {
			return errors.New("hdf5: hyperslab blocks overlap")
		}
		last := offset[i] + (count[i]-1)*st[i] + bl[i] - 1
		if last >= s.dims[i] {
			return errors.New("hdf5: hyperslab selection out of bounds")
		}
	}
	s.sel, s.none = true, none
	s.offset = append([]uint(nil), offset...)
	s.stride, s.block = st, bl
	s.count = append([]uint(nil), count...)
	return nil
}

// selected returns the row-major flat element indices the dataspace selects.
//
//go:norace
func (s *Dataspace) selected() []int {
	rank := len(s.dims)
	per := make([][]int, rank)
	for i := 0; i < rank; i++ {
		if !s.sel {
			for k := 0; k < int(s.dims[i]); k++ {
				per[i] = append(per[i], k)
			}
			continue
		}
		for c := uint(0); c < s.count[i]; c++ {
			for b := uint(0); b < s.block[i]; b++ {
				per[i] = append(per[i], int(s.offset[i]+c*s.stride[i]+b))
			}
		}
	}
	if s.sel && s.none {
		return nil
	}
	strides := make([]int, rank)
	acc := 1
	for i := rank - 1; i >= 0; i-- {
		strides[i] = acc
		acc *= int(s.dims[i])
	}
	total := 1
	for i := 0; i < rank; i++ {
		total *= len(per[i])
	}
	if rank == 0 {
		return []int{0}
	}
	out := make([]int, 0, total)
	idx := make([]int, rank)
	for n := 0; n < total; n++ {
		off := 0
		for i := 0; i < rank; i++ {
			off += per[i][idx[i]] * strides[i]
		}
		out = append(out, off)
		for i := rank - 1; i >= 0; i-- {
			idx[i]++
			if idx[i] < len(per[i]) {
				break
			}
			idx[i] = 0
		}
	}
	return out
}

// userBuffer resolves the Go value handed to Read/Write into (address, element count, kind, size).
//
//go:norace
func userBuffer(data interface{}) (unsafe.Pointer, int, reflect.Kind, int, error) {
	v := reflect.ValueOf(data)
	if v.Kind() == reflect.Ptr {
		v = v.Elem()
	}
	switch v.Kind() {
	case reflect.Slice:
		et := v.Type().Elem()
		if v.Len() == 0 {
			return nil, 0, et.Kind(), int(et.Size()), nil
		}
		return unsafe.Pointer(v.Pointer()), v.Len(), et.Kind(), int(et.Size()), nil
	case reflect.Array:
		if !v.CanAddr() {
			return nil, 0, 0, 0, errors.New("hdf5: unaddressable array")
		}
		et := v.Type().Elem()
		return unsafe.Pointer(v.UnsafeAddr()), v.Len(), et.Kind(), int(et.Size()), nil
	}
	return nil, 0, 0, 0, errors.New("hdf5: unsupported buffer type " + v.Kind().String())
}

//go:norace
func kindsCompatible(ds *node, k reflect.Kind, size int) bool {
	if ds.kind == reflect.String {
		return k == reflect.Uint8 || k == reflect.Int8
	}
	return ds.kind == k && ds.elemSize == size
}

//go:norace
func (d *Dataset) Read(data interface{}) error { return d.ReadSubset(data, nil, nil) }

//go:norace
func (d *Dataset) ReadSubset(data interface{}, memspace, filespace *Dataspace) error {
	cc, fault := enter("Read", false, d.f.name, d.path, "read-fails")
	defer leave(cc)
	if fault != "" {
		return ErrInjected
	}
	return d.transfer(cc, data, memspace, filespace, false, "")
}

//go:norace
func (d *Dataset) Write(data interface{}) error { return d.WriteSubset(data, nil, nil) }

//go:norace
func (d *Dataset) WriteSubset(data interface{}, memspace, filespace *Dataspace) error {
	cc, fault := enter("Write", true, d.f.name, d.path, "write-fails-clean", "write-torn")
	defer leave(cc)
	if fault == "write-fails-clean" {
		return ErrInjected
	}
	return d.transfer(cc, data, memspace, filespace, true, fault)
}

//go:norace
func (d *Dataset) transfer(cc callCtx, data interface{}, memspace, filespace *Dataspace, write bool, fault string) error {
	ptr, n, kind, size, err := userBuffer(data)
	if err != nil {
		return err
	}
	if !kindsCompatible(d.n, kind, size) {
		return errors.New("hdf5: memory element type " + kind.String() + " does not match dataset type " + d.n.kind.String())
	}
	fs := filespace
	if fs == nil {
		fs = &Dataspace{dims: d.n.dims}
	}
	if len(fs.dims) != len(d.n.dims) {
		return errors.New("hdf5: file dataspace rank mismatch")
	}
	for i := range fs.dims {
		if fs.dims[i] != d.n.dims[i] {
			return errors.New("hdf5: file dataspace extent mismatch")
		}
	}
	fsel := fs.selected()
	esz := d.n.elemSize
	bytesPerUser := size
	nUser := n
	if d.n.kind == reflect.String {
		// user buffer is bytes; one file element = esz bytes
		nUser = n / esz
		bytesPerUser = esz
	}
	var msel []int
	if memspace != nil {
		msel = memspace.selected()
		total := 1
		for _, x := range memspace.dims {
			total *= int(x)
		}
		if total > nUser {
			return errors.New("hdf5: memory buffer smaller than memory dataspace")
		}
	} else {
		if nUser < len(fsel) {
			return errors.New("hdf5: memory buffer smaller than selection")
		}
		msel = make([]int, len(fsel))
		for i := range msel {
			msel[i] = i
		}
	}
	if len(msel) != len(fsel) {
		return errors.New("hdf5: src and dest dataspaces have different number of elements selected")
	}
	if cc.idx >= 0 {
		c := &ctl.Log[cc.idx]
		c.Elems = len(fsel)
		if fs.sel {
			c.Start, c.Count, c.Block, c.Stride = fs.offset, fs.count, fs.block, fs.stride
		}
	}
	if len(fsel) == 0 {
		return nil
	}
	user := unsafe.Slice((*byte)(ptr), n*size)
	limit := len(fsel)
	if fault == "write-torn" {
		limit = ctl.Tape.Choose(len(fsel)) // a strict prefix (possibly empty) reaches the disk
	}
	for i := 0; i < limit; i++ {
		if i == limit/2 && limit >= 2 && cc.idx >= 0 {
			// a non-thread-safe library: a transfer is not atomic with respect to other
			// callers; with correct locking nobody can observe the half-done state
			simrt.Yield("hdf5.transfer~mid")
		}
		fo, mo := fsel[i]*esz, msel[i]*bytesPerUser
		if write {
			copy(d.n.raw[fo:fo+esz], user[mo:mo+esz])
		} else {
			copy(user[mo:mo+esz], d.n.raw[fo:fo+esz])
		}
	}
	if fault == "write-torn" {
		return ErrInjected
	}
	return nil
}

//go:norace
func NewDataTypeFromType(t reflect.Type) (*Datatype, error) {
	cc, _ := enter("NewDataTypeFromType", false, "", "")
	defer leave(cc)
	switch t.Kind() {
	case reflect.Int, reflect.Int8, reflect.Int16, reflect.Int32, reflect.Int64,
		reflect.Uint, reflect.Uint8, reflect.Uint16, reflect.Uint32, reflect.Uint64,
		reflect.Float32, reflect.Float64, reflect.Bool:
		return &Datatype{t.Kind(), int(t.Size())}, nil
	case reflect.String:
		return &Datatype{reflect.String, 1}, nil
	}
	return nil, errors.New("hdf5: unsupported type " + t.String())
}

//go:norace
func (t *Datatype) GoType() reflect.Type {
	switch t.kind {
	case reflect.Int:
		return reflect.TypeOf(int(0))
	case reflect.Int8:
		return reflect.TypeOf(int8(0))
	case reflect.Int16:
		return reflect.TypeOf(int16(0))
	case reflect.Int32:
		return reflect.TypeOf(int32(0))
	case reflect.Int64:
		return reflect.TypeOf(int64(0))
	case reflect.Uint:
		return reflect.TypeOf(uint(0))
	case reflect.Uint8:
		return reflect.TypeOf(uint8(0))
	case reflect.Uint16:
		return reflect.TypeOf(uint16(0))
	case reflect.Uint32:
		return reflect.TypeOf(uint32(0))
	case reflect.Uint64:
		return reflect.TypeOf(uint64(0))
	case reflect.Float32:
		return reflect.TypeOf(float32(0))
	case reflect.Float64:
		return reflect.TypeOf(float64(0))
	case reflect.Bool:
		return reflect.TypeOf(false)
	case reflect.String:
		return reflect.TypeOf("")
	}
	return nil
}

//go:norace
func (t *Datatype) Size() uint { return uint(t.size) }

//go:norace
func (t *Datatype) SetSize(sz int) error {
	if t.kind != reflect.String || sz <= 0 {
		return errors.New("hdf5: cannot set size")
	}
	t.size = sz
	return nil
}

//go:norace
func (t *Datatype) Close() error {
	if t == nil {
		return nil
	}
	cc, _ := enter("Datatype.Close", false, "", "")
	defer leave(cc)
	return nil
}

//go:norace
func NewPropList(cls PropType) (*PropList, error) {
	cc, _ := enter("NewPropList", false, "", "")
	defer leave(cc)
	return &PropList{}, nil
}

//go:norace
func (p *PropList) SetDeflate(level int) error { p.deflate = true; return nil }

//go:norace
func (p *PropList) SetChunk(dims []uint) error { return nil }

//go:norace
func (p *PropList) Close() error {
	cc, _ := enter("PropList.Close", false, "", "")
	defer leave(cc)
	return nil
}

// ---------------------------------------------------------------- harness side (not part of gonum's API)

// DatasetCopy is a decoded copy of a dataset for the oracles.
type DatasetCopy struct {
	Path   string
	Dims   []int
	Kind   reflect.Kind
	Size   int
	Floats []float64 // every numeric kind converted by value (exact for the harness's value ranges)
	Raw    []byte
}

//go:norace
func decode(n *node) []float64 {
	total := 1
	for _, d := range n.dims {
		total *= int(d)
	}
	out := make([]float64, total)
	if n.kind == reflect.String {
		return nil
	}
	for i := 0; i < total; i++ {
		p := unsafe.Pointer(&n.raw[i*n.elemSize])
		switch n.kind {
		case reflect.Float64:
			out[i] = *(*float64)(p)
		case reflect.Float32:
			out[i] = float64(*(*float32)(p))
		case reflect.Int32:
			out[i] = float64(*(*int32)(p))
		case reflect.Uint32:
			out[i] = float64(*(*uint32)(p))
		case reflect.Int64:
			out[i] = float64(*(*int64)(p))
		case reflect.Uint64:
			out[i] = float64(*(*uint64)(p))
		case reflect.Int:
			out[i] = float64(*(*int)(p))
		case reflect.Uint:
			out[i] = float64(*(*uint)(p))
		}
	}
	return out
}

//go:norace
func walk(prefix string, n *node, out *[]DatasetCopy, groups *[]string) {
	for _, c := range n.children {
		p := prefix + "/" + c.name
		if c.group {
			*groups = append(*groups, p)
			walk(p, c, out, groups)
			continue
		}
		dims := make([]int, len(c.dims))
		for i, d := range c.dims {
			dims[i] = int(d)
		}
		*out = append(*out, DatasetCopy{Path: p, Dims: dims, Kind: c.kind, Size: c.elemSize, Floats: decode(c), Raw: append([]byte(nil), c.raw...)})
	}
}

// Snapshot returns copies of all datasets and the group paths of a file (nil if absent).
//
//go:norace
func Snapshot(file string) (ds []DatasetCopy, groups []string, ok bool) {
	f := findFile(file)
	if f == nil {
		return nil, nil, false
	}
	walk("", f.root, &ds, &groups)
	return ds, groups, true
}

// FileNames lists the files on the simulated disk.
//
//go:norace
func FileNames() []string {
	var out []string
	for _, f := range files {
		out = append(out, f.name)
	}
	return out
}

// OpenHandles returns the number of file handles that were opened and not closed.
//
//go:norace
func OpenHandles() int {
	n := 0
	for _, f := range files {
		n += f.open
	}
	return n
}

// PutStrings creates a 1-D fixed-length string dataset directly on the disk (harness only).
//
//go:norace
func PutStrings(file, path string, strs []string, size int) {
	n := ensure(file, path)
	n.kind, n.elemSize = reflect.String, size
	n.dims = []uint{uint(len(strs))}
	n.raw = make([]byte, len(strs)*size)
	for i, s := range strs {
		copy(n.raw[i*size:(i+1)*size], s)
	}
}

// PutRaw creates a numeric dataset directly on the disk from a typed slice (harness only).
//
//go:norace
func PutRaw(file, path string, dims []int, slice interface{}) {
	n := ensure(file, path)
	ptr, cnt, kind, size, err := userBuffer(slice)
	if err != nil {
		panic(err)
	}
	n.kind, n.elemSize = kind, size
	n.dims = make([]uint, len(dims))
	total := 1
	for i, d := range dims {
		n.dims[i] = uint(d)
		total *= d
	}
	if cnt < total {
		panic("hdf5.PutRaw: slice shorter than extent")
	}
	n.raw = make([]byte, total*size)
	if total > 0 {
		copy(n.raw, unsafe.Slice((*byte)(ptr), total*size))
	}
}

// MakeGroup creates a group path directly on the disk (harness only).
//
//go:norace
func MakeGroup(file, path string) {
	f := findFile(file)
	if f == nil {
		f = &fileObj{name: file, root: &node{name: "/", group: true}}
		files = append(files, f)
	}
	n := f.root
	for _, p := range splitPath(path) {
		c := n.child(p)
		if c == nil {
			c = &node{name: p, group: true}
			n.children = append(n.children, c)
		}
		n = c
	}
}

//go:norace
func ensure(file, path string) *node {
	parts := splitPath(path)
	MakeGroup(file, strings.Join(parts[:len(parts)-1], "/"))
	f := findFile(file)
	n := f.root
	for _, p := range parts[:len(parts)-1] {
		n = n.child(p)
	}
	last := parts[len(parts)-1]
	c := n.child(last)
	if c == nil {
		c = &node{name: last}
		n.children = append(n.children, c)
	}
	c.group = false
	return c
}
