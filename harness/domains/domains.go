// Package domains generates valid, physically sensible parameter columns and
// input time series for every model registered in sim.Catalog of
// github.com/flowmatters/openwater-core, so that test code can run each model in
// its intended working regime without panics.
//
// All randomness comes from a Chooser. A Chooser that always answers 0 yields the
// simplest valid case for every model (lowest values, shortest tables, no special
// branches).
//
// Known survivability hazards that the domain can NOT remove on its own because
// they depend on the number of timesteps T chosen by the caller (see the test in
// this package, which encodes them):
//
//   - T == 0 panics in InstreamDissolvedNutrientDecay (reads reachVolume[0] before
//     the loop) and StorageTrapAll (reads/writes trappedMass[0] unconditionally).
//   - Lag panics (index out of range in models/routing/lag.go) iff
//     T < timeLag < 2*T. Callers must either pick T outside that window or call
//     ForceStateWidthClass(model, params, k) with a safe k (k <= T or k >= 2*T;
//     k in {0,1,2} is safe for every T).
//   - Cells of the same Run must share StateWidthClass (GR4J, Lag), otherwise
//     InitialiseStates/Run index outside the states array.
//   - For dimensioned models at least one cell must use the full table length
//     (forceLen == maxDim), otherwise FindDimensions returns a smaller dimension
//     than the one used to lay out the matrix.
package domains

import (
	"fmt"
	"math"
	"sort"

	_ "github.com/flowmatters/openwater-core/models"
	"github.com/flowmatters/openwater-core/sim"
)

// Chooser is the only source of randomness. Choose returns a value in [0,n), n>=1.
// Value 0 must always be the "simplest" choice (smallest size, lowest value, no special case),
// because a shrinker replaces choices by 0.
type Chooser interface{ Choose(n int) int }

// Float returns lo + (hi-lo)*k/4095 for k = c.Choose(4096).
func Float(c Chooser, lo, hi float64) float64 {
	k := c.Choose(4096)
	if k >= 4095 {
		return hi
	}
	return lo + (hi-lo)*float64(k)/4095
}

// ---------------------------------------------------------------------------
// small drawing helpers

// logFloat draws log-uniformly in [lo,hi] (0<lo<hi); choice 0 gives lo.
func logFloat(c Chooser, lo, hi float64) float64 {
	k := c.Choose(4096)
	if k == 0 {
		return lo
	}
	if k >= 4095 {
		return hi
	}
	return math.Exp(math.Log(lo) + (math.Log(hi)-math.Log(lo))*float64(k)/4095)
}

// intIn draws an integer in [lo,hi]; choice 0 gives lo.
func intIn(c Chooser, lo, hi int) int {
	if hi <= lo {
		return lo
	}
	return lo + c.Choose(hi-lo+1)
}

// flag draws 0 or 1; choice 0 gives 0.
func flag(c Chooser) float64 { return float64(c.Choose(2)) }

type pfn func(c Chooser) float64

func rng(lo, hi float64) pfn       { return func(c Chooser) float64 { return Float(c, lo, hi) } }
func lrng(lo, hi float64) pfn      { return func(c Chooser) float64 { return logFloat(c, lo, hi) } }
func irng(lo, hi int) pfn          { return func(c Chooser) float64 { return float64(intIn(c, lo, hi)) } }
func konst(v float64) pfn          { return func(c Chooser) float64 { return v } }
func flagP() pfn                   { return func(c Chooser) float64 { return flag(c) } }
func placeholder() pfn             { return konst(0) } // value assigned by the model's fix function
func percent() pfn                 { return rng(0, 100) }
func fraction() pfn                { return rng(0, 1) }
func areaM2() pfn                  { return lrng(1e4, 1e10) }
func timestepFrom1(hi float64) pfn { return rng(1, hi) }

// ---------------------------------------------------------------------------
// calendar (same rules as models/functions/dates.go)

var daysInMonthTable = [...]int{31, 28, 31, 30, 31, 30, 31, 31, 30, 31, 30, 31}

func leapYear(y int) bool {
	if y%4 != 0 {
		return false
	}
	if y%100 != 0 {
		return true
	}
	return y%400 == 0
}

func daysInMonth(m, y int) int {
	if m == 2 && leapYear(y) {
		return 29
	}
	return daysInMonthTable[m-1]
}

func dayOfYear(d, m, y int) int {
	doy := 0
	for mi := 1; mi < m; mi++ {
		doy += daysInMonth(mi, y)
	}
	return doy + d
}

type calendar struct {
	year, doy []float64
}

// drawCalendar draws a start date and steps it daily for T steps.
func drawCalendar(c Chooser, T int, yearLo, yearHi int) *calendar {
	y := intIn(c, yearLo, yearHi)
	m := intIn(c, 1, 12)
	// calendar code goes wrong at the ends of years and around 29 February: a third of the calendars
	// start in a leap year, a quarter in December (so that short series cross into the next year), one
	// in eight in the second half of February
	if c.Choose(3) == 2 {
		y -= y % 4
		if y%100 == 0 && y%400 != 0 {
			y += 4
		}
	}
	switch c.Choose(8) {
	case 5, 6:
		m = 12
	case 7:
		m = 2
	}
	d := intIn(c, 1, daysInMonth(m, y))
	if m == 2 && d < 15 {
		d += 14
	}
	cal := &calendar{year: make([]float64, T), doy: make([]float64, T)}
	for t := 0; t < T; t++ {
		cal.year[t] = float64(y)
		cal.doy[t] = float64(dayOfYear(d, m, y))
		d++
		if d > daysInMonth(m, y) {
			d = 1
			m++
		}
		if m > 12 {
			m = 1
			y++
		}
	}
	return cal
}

// ---------------------------------------------------------------------------
// input series helpers

type ictx struct {
	c      Chooser
	model  string
	params []float64
	maxDim int
	T      int
	done   map[string][]float64
	cal    *calendar
}

func (x *ictx) param(name string) float64 {
	def := defs[x.model]
	for i, p := range def.params {
		if p.name == name {
			return x.params[i]
		}
	}
	panic(fmt.Sprintf("domains: model %s has no scalar parameter %s", x.model, name))
}

func (x *ictx) calendar(yearLo, yearHi int) *calendar {
	if x.cal == nil {
		x.cal = drawCalendar(x.c, x.T, yearLo, yearHi)
	}
	return x.cal
}

type ifn func(x *ictx) []float64

// spells produces a non-negative series with zero spells. Each step keeps the
// previous regime with probability 1/2, otherwise switches to zero / moderate /
// high. In the moderate regime values are in [0,mid], in the high regime in
// [mid,hi]. All-zero choices give an all-zero series.
//
// One series in five is then made smooth from some step on: steady, or changing by a constant
// small factor per step (a recession, a slow rise), as regulated releases, baseflow and
// drizzle are. Which series, from where and how fast follows from the choices already made for
// the series (a fold over them), so the choice sequence of a case is the same with and without
// the smoothing.
func spells(c Chooser, T int, mid, hi float64) []float64 {
	out := make([]float64, T)
	state := 0
	h := uint64(T)*0x9e3779b97f4a7c15 + 0x632be59bd9b4e019
	defer func() { smoothTail(out, h, hi) }()
	for t := 0; t < T; t++ {
		ch := c.Choose(6)
		h = (h ^ uint64(ch+1)) * 0xff51afd7ed558ccd
		h ^= h >> 29
		switch ch {
		case 0, 1, 2: // keep
		case 3:
			state = 0
		case 4:
			state = 1
		case 5:
			state = 2
		}
		switch state {
		case 1:
			out[t] = Float(c, 0, mid)
		case 2:
			out[t] = Float(c, mid, hi)
		}
	}
	return out
}

var smoothFactors = []float64{1, 1, 1 - 1e-5, 1 - 1e-3, 0.98, 1 + 1e-4, 1, 0.9}

func smoothTail(out []float64, h uint64, hi float64) {
	T := len(out)
	if T < 3 || h%5 != 0 {
		return
	}
	h /= 5
	t0 := int(h % uint64(1+T/2))
	h /= uint64(1 + T/2)
	f := smoothFactors[h%uint64(len(smoothFactors))]
	v := out[t0]
	if v == 0 {
		for _, x := range out {
			if x != 0 {
				v = x
				break
			}
		}
	}
	if v == 0 {
		return // an all-zero series stays all-zero
	}
	for t := t0; t < T; t++ {
		out[t] = v
		if v*f <= hi {
			v *= f
		}
	}
}

// positive produces a strictly positive series in [lo,hi].
func positive(c Chooser, T int, lo, hi float64) []float64 {
	out := make([]float64, T)
	for t := range out {
		out[t] = Float(c, lo, hi)
	}
	return out
}

func rainfall() ifn  { return func(x *ictx) []float64 { return spells(x.c, x.T, 20, 300) } }
func pet() ifn       { return func(x *ictx) []float64 { return positive(x.c, x.T, 0, 12) } }
func flow() ifn      { return func(x *ictx) []float64 { return spells(x.c, x.T, 10, 500) } }    // m^3.s^-1
func load() ifn      { return func(x *ictx) []float64 { return spells(x.c, x.T, 1, 50) } }      // kg.s^-1
func massKg() ifn    { return func(x *ictx) []float64 { return spells(x.c, x.T, 1e3, 1e6) } }   // kg
func volume() ifn    { return func(x *ictx) []float64 { return spells(x.c, x.T, 1e5, 1e7) } }   // m^3
func posVolume() ifn { return func(x *ictx) []float64 { return positive(x.c, x.T, 1e3, 1e7) } } // m^3, >0
func frac01() ifn    { return func(x *ictx) []float64 { return positive(x.c, x.T, 0, 1) } }
func generic() ifn   { return func(x *ictx) []float64 { return spells(x.c, x.T, 10, 1000) } }
func ticks() ifn {
	return func(x *ictx) []float64 {
		out := make([]float64, x.T)
		for t := range out {
			out[t] = float64(t)
		}
		return out
	}
}
func yearSeries() ifn { return func(x *ictx) []float64 { return x.calendar(1880, 2050).year } }
func doySeries() ifn  { return func(x *ictx) []float64 { return x.calendar(1880, 2050).doy } }

// ---------------------------------------------------------------------------
// model definitions

type pgen struct {
	name string
	gen  pfn // nil => declared range
}

type igen struct {
	name string
	gen  ifn
}

type modelDef struct {
	params []pgen
	// fix imposes cross-parameter constraints after the independent draws (may draw more).
	fix    func(c Chooser, p []float64)
	inputs []igen
	// table models
	dimensioned bool
	genTable    func(c Chooser, maxDim, n int) []float64
}

// WholeSpecRange lets a model's parameters leave the hand-written stable regime and use the whole
// range its OW-SPEC block declares (set by the split engine of C06 only).
var WholeSpecRange bool

func decl(name string) pgen       { return pgen{name, nil} }
func par(name string, g pfn) pgen { return pgen{name, g} }
func in(name string, g ifn) igen  { return igen{name, g} }

var defs = map[string]*modelDef{}

func init() {
	defs["ApplyScalingFactor"] = &modelDef{
		params: []pgen{par("scale", rng(0, 2))},
		inputs: []igen{in("input", generic())},
	}
	defs["BankErosion"] = &modelDef{
		params: []pgen{
			par("riparianVegPercent", percent()),
			par("maxRiparianVegEffectiveness", percent()),
			par("soilErodibility", percent()),
			par("bankErosionCoeff", rng(0, 1e-4)),
			par("linkSlope", lrng(1e-5, 0.1)),
			par("bankFullFlow", rng(0, 1000)),
			par("bankMgtFactor", fraction()),
			par("sedBulkDensity", rng(1, 2)),
			par("bankHeight", rng(0.1, 10)),
			par("linkLength", lrng(10, 1e5)),
			par("dailyFlowPowerFactor", rng(0.5, 2)),
			par("longTermAvDailyFlow", placeholder()),
			par("soilPercentFine", percent()),
			decl("durationInSeconds"),
		},
		fix: func(c Chooser, p []float64) {
			// longTermAvDailyFlow normalises (flow*duration)^dailyFlowPowerFactor, so it is the
			// same expression evaluated at a long-term reference flow of 1..200 m^3/s;
			// occasionally 0, which the kernel treats as "no discharge factor".
			if c.Choose(8) == 7 {
				p[11] = 0
				return
			}
			p[11] = math.Pow(Float(c, 1, 200)*p[13], p[10])
		},
		inputs: []igen{in("downstreamFlowVolume", flow()), in("totalVolume", volume())},
	}
	defs["BaseflowFilter"] = &modelDef{inputs: []igen{in("streamflow", flow())}}
	defs["ClimateVariables"] = &modelDef{
		params: []pgen{decl("elevation")},
		inputs: []igen{
			in("dryBulb", func(x *ictx) []float64 { return positive(x.c, x.T, -5, 45) }),
			in("humidity", func(x *ictx) []float64 { return positive(x.c, x.T, 0, 100) }),
		},
	}
	defs["ComputeProportion"] = &modelDef{
		params: []pgen{par("resultOnZeroDenominator", fraction())},
		inputs: []igen{in("numerator", generic()), in("denominator", generic())},
	}
	defs["ConstituentDecay"] = &modelDef{
		params: []pgen{decl("X"), par("halfLife", rng(0, 30*86400)), decl("DeltaT")},
		inputs: []igen{in("inflowLoad", load()), in("lateralLoad", load()), in("inflow", flow()), in("outflow", flow()), in("storage", volume())},
	}
	defs["DateGenerator"] = &modelDef{
		params: []pgen{par("startDate", placeholder()), par("startMonth", placeholder()), par("startYear", placeholder())},
		fix: func(c Chooser, p []float64) {
			y := intIn(c, 1890, 2110)
			m := intIn(c, 1, 12)
			d := intIn(c, 1, daysInMonth(m, y))
			p[0], p[1], p[2] = float64(d), float64(m), float64(y)
		},
		inputs: []igen{in("tick", ticks())},
	}
	defs["DeliveryRatio"] = &modelDef{
		params: []pgen{par("fraction", fraction())},
		inputs: []igen{in("input", generic())},
	}
	defs["DepthToRate"] = &modelDef{
		params: []pgen{decl("DeltaT"), par("area", areaM2())},
		inputs: []igen{in("input", rainfall())},
	}
	gully := func() *modelDef {
		return &modelDef{
			params: []pgen{
				par("YearDisturbance", irng(1850, 2000)),
				par("GullyEndYear", placeholder()),
				par("Area", areaM2()),
				decl("averageGullyActivityFactor"),
				par("GullyAnnualAverageSedimentSupply", rng(0, 1e5)),
				par("GullyPercentFine", percent()),
				par("managementPracticeFactor", rng(0, 2)),
				par("longtermRunoffFactor", rng(0, 50)),
				par("dailyRunoffPowerFactor", rng(0, 3)),
				par("sdrFine", percent()),
				par("sdrCoarse", percent()),
				par("timeStepInSeconds", timestepFrom1(1e8)),
			},
			fix: func(c Chooser, p []float64) {
				p[1] = p[0] + float64(intIn(c, 0, 150))
			},
			inputs: []igen{
				in("quickflow", flow()),
				in("year", yearSeries()),
				in("AnnualRunoff", func(x *ictx) []float64 { return spells(x.c, x.T, 300, 3000) }),
				in("annualLoad", func(x *ictx) []float64 { return spells(x.c, x.T, 1e4, 1e7) }),
			},
		}
	}
	defs["DynamicSednetGully"] = gully()
	defs["DynamicSednetGullyAlt"] = gully()
	defs["EmcDwc"] = &modelDef{
		params: []pgen{decl("EMC"), decl("DWC")},
		inputs: []igen{in("quickflow", flow()), in("baseflow", flow())},
	}
	defs["FixedConcentration"] = &modelDef{
		params: []pgen{decl("concentration")},
		inputs: []igen{in("flow", flow())},
	}
	defs["FixedPartition"] = &modelDef{
		params: []pgen{par("fraction", fraction())},
		inputs: []igen{in("input", generic())},
	}
	defs["GR4J"] = &modelDef{
		params: []pgen{decl("X1"), decl("X2"), decl("X3"), decl("X4")},
		inputs: []igen{in("rainfall", rainfall()), in("pet", pet())},
	}
	defs["Gate"] = &modelDef{inputs: []igen{in("trigger", generic()), in("incoming", generic())}}
	defs["Input"] = &modelDef{inputs: []igen{in("input", generic())}}
	defs["InstreamCoarseSediment"] = &modelDef{
		params: []pgen{decl("durationInSeconds")},
		inputs: []igen{in("upstreamMass", load()), in("lateralMass", load()), in("reachLocalMass", load())},
	}
	defs["InstreamDissolvedNutrientDecay"] = &modelDef{
		params: []pgen{
			par("doDecay", flagP()),
			par("pointSourceLoad", rng(0, 1e5)),
			par("linkHeight", rng(0.1, 20)),
			par("linkWidth", lrng(0.5, 500)),
			par("linkLength", lrng(10, 1e5)),
			par("uptakeVelocity", rng(0, 5)),
			decl("durationInSeconds"),
		},
		inputs: []igen{
			in("incomingMassUpstream", load()), in("incomingMassLateral", load()),
			in("reachVolume", volume()), in("outflow", flow()),
			in("floodplainDepositionFraction", frac01()),
		},
	}
	defs["InstreamFineSediment"] = &modelDef{
		params: []pgen{
			par("bankFullFlow", rng(0, 500)),
			par("fineSedSettVelocityFlood", lrng(1e-6, 1e-3)),
			par("floodPlainArea", lrng(1, 1e8)),
			par("linkWidth", lrng(0.5, 500)),
			par("linkLength", lrng(10, 1e5)),
			par("linkSlope", lrng(1e-5, 0.1)),
			par("bankHeight", rng(0.1, 20)),
			par("propBankHeightForFineDep", fraction()),
			par("sedBulkDensity", rng(1, 2)),
			par("manningsN", rng(0.01, 0.2)),
			par("fineSedSettVelocity", lrng(1e-7, 1e-3)),
			par("fineSedReMobVelocity", placeholder()),
			decl("durationInSeconds"),
		},
		fix: func(c Chooser, p []float64) {
			// remobilisation threshold velocity >= settling velocity (so that the
			// remobilisation capacity never exceeds the deposition capacity)
			p[11] = p[10] * logFloat(c, 1, 10)
		},
		inputs: []igen{
			in("upstreamMass", load()), in("lateralMass", load()), in("reachLocalMass", load()),
			in("reachVolume", volume()), in("outflow", flow()),
		},
	}
	defs["InstreamParticulateNutrient"] = &modelDef{
		params: []pgen{decl("particulateNutrientConcentration"), par("soilPercentFine", percent()), decl("durationInSeconds")},
		inputs: []igen{
			in("incomingMassUpstream", load()), in("incomingMassLateral", load()),
			in("reachVolume", volume()), in("outflow", flow()),
			in("streambankErosion", load()), in("lateralSediment", load()),
			in("floodplainDepositionFraction", frac01()),
			in("channelDepositionFraction", func(x *ictx) []float64 {
				// mostly a deposited fraction in [0,1]; occasionally a (negative) remobilisation signal
				out := make([]float64, x.T)
				for t := range out {
					if x.c.Choose(8) == 7 {
						out[t] = -Float(x.c, 0, 0.5)
					} else {
						out[t] = Float(x.c, 0, 1)
					}
				}
				return out
			}),
		},
	}
	defs["Lag"] = &modelDef{
		params: []pgen{par("timeLag", irng(0, 6))},
		inputs: []igen{in("inflow", flow())},
	}
	defs["LumpedConstituentRouting"] = &modelDef{
		params: []pgen{decl("X"), par("pointInput", rng(0, 1)), decl("DeltaT")},
		inputs: []igen{in("inflowLoad", load()), in("lateralLoad", load()), in("outflow", flow()), in("storage", volume())},
	}
	defs["Muskingum"] = &modelDef{
		params: []pgen{par("K", placeholder()), par("X", rng(0, 0.5)), decl("DeltaT")},
		fix: func(c Chooser, p []float64) {
			// 2*K*X <= DeltaT <= 2*K*(1-X), 0 < K <= 200000
			x, dt := p[1], p[2]
			if WholeSpecRange && c.Choose(4) == 0 {
				// anywhere in the spec's own range [0,200000]: outside the inequality above a
				// coefficient is negative and the scheme undershoots on a steep limb - still a linear
				// recursion, and a hot start must reproduce it (only engines whose oracle compares a
				// run with itself ask for this; downstream models need not tolerate negative flows)
				p[0] = Float(c, dt/20, 200000)
				return
			}
			lo := dt / (2 * (1 - x))
			hi := 200000.0
			if x > 0 && dt/(2*x) < hi {
				hi = dt / (2 * x)
			}
			lo *= 1 + 1e-9
			hi *= 1 - 1e-9
			if hi < lo {
				hi = lo
			}
			p[0] = Float(c, lo, hi)
		},
		inputs: []igen{in("inflow", flow()), in("lateral", flow())},
	}
	defs["PartitionDemand"] = &modelDef{inputs: []igen{in("input", flow()), in("demand", flow())}}
	defs["PassLoadIfFlow"] = &modelDef{
		params: []pgen{par("scalingFactor", rng(0, 2))},
		inputs: []igen{in("flow", flow()), in("inputLoad", load())},
	}
	defs["RatingCurvePartition"] = &modelDef{
		dimensioned: true,
		params:      []pgen{par("nPts", placeholder()), par("inputAmount", nil), par("proportion", nil)},
		genTable: func(c Chooser, maxDim, n int) []float64 {
			out := make([]float64, 1+2*maxDim)
			out[0] = float64(n)
			amount := 0.0 // table starts at 0 so that zero-flow spells are inside it
			for k := 0; k < n; k++ {
				if k > 0 {
					amount += logFloat(c, 0.1, 1000)
				}
				out[1+k] = amount
			}
			for k := 0; k < n; k++ {
				out[1+maxDim+k] = Float(c, 0, 1)
			}
			return out
		},
		inputs: []igen{in("input", func(x *ictx) []float64 {
			n := int(x.params[0])
			lo, hi := x.params[1], x.params[1+n-1]
			u := spells(x.c, x.T, 0.5, 1)
			for t := range u {
				v := lo + (hi-lo)*u[t]
				if v > hi {
					v = hi
				}
				if v < lo {
					v = lo
				}
				u[t] = v
			}
			return u
		})},
	}
	defs["RunoffCoefficient"] = &modelDef{
		params: []pgen{par("coeff", fraction())},
		inputs: []igen{in("rainfall", rainfall())},
	}
	defs["Sacramento"] = &modelDef{
		params: []pgen{
			par("lzpk", rng(0.001, 0.1)),
			par("lzsk", rng(0.01, 0.5)),
			par("uzk", rng(0.1, 0.8)),
			par("uztwm", rng(5, 125)),
			par("uzfwm", rng(5, 75)),
			par("lztwm", rng(10, 300)),
			par("lzfsm", rng(5, 300)),
			par("lzfpm", rng(5, 600)),
			par("pfree", rng(0, 0.6)),
			par("rexp", rng(0, 3)),
			par("zperc", rng(0, 80)),
			par("side", rng(0, 0.5)),
			par("ssout", rng(0, 0.5)),
			par("pctim", rng(0, 0.2)),
			par("adimp", rng(0, 0.3)),
			par("sarva", rng(0, 0.2)),
			par("rserv", rng(0, 0.5)),
			par("uh1", rng(0.1, 1)),
			par("uh2", fraction()),
			par("uh3", fraction()),
			par("uh4", fraction()),
			par("uh5", fraction()),
		},
		inputs: []igen{in("rainfall", rainfall()), in("pet", pet())},
	}
	defs["SednetDissolvedNutrientGeneration"] = &modelDef{
		params: []pgen{par("dissConst_EMC", rng(0, 100)), par("dissConst_DWC", rng(0, 100))},
		inputs: []igen{in("quickflow", flow()), in("slowflow", flow())},
	}
	defs["SednetParticulateNutrientGeneration"] = &modelDef{
		params: []pgen{
			par("area", areaM2()),
			par("nutSurfSoilConc", rng(0, 0.01)),
			par("hillDeliveryRatio", percent()),
			par("Nutrient_Enrichment_Ratio", rng(0, 5)),
			par("nutSubSoilConc", rng(0, 0.01)),
			par("Nutrient_Enrichment_Ratio_Gully", rng(0, 5)),
			par("gullyDeliveryRatio", percent()),
			par("nutrientDWC", rng(0, 10)),
			par("Do_P_CREAMS_Enrichment", flagP()),
		},
		inputs: []igen{
			in("fineSedModelFineSheetGeneratedKg", massKg()), in("fineSedModelCoarseSheetGeneratedKg", massKg()),
			in("fineSedModelFineGullyGeneratedKg", massKg()), in("fineSedModelCoarseGullyGeneratedKg", massKg()),
			in("slowflow", flow()),
		},
	}
	defs["Simhyd"] = &modelDef{
		params: []pgen{
			par("baseflowCoefficient", fraction()),
			par("imperviousThreshold", rng(0, 5)),
			par("infiltrationCoefficient", rng(0, 400)),
			par("infiltrationShape", rng(0, 10)),
			par("interflowCoefficient", fraction()),
			par("perviousFraction", fraction()),
			par("rainfallInterceptionStoreCapacity", rng(0, 5)),
			par("rechargeCoefficient", fraction()),
			par("soilMoistureStoreCapacity", rng(1, 500)),
		},
		inputs: []igen{in("rainfall", rainfall()), in("pet", pet())},
	}
	defs["Storage"] = &modelDef{
		dimensioned: true,
		params: []pgen{decl("DeltaT"), par("nLVA", placeholder()), par("levels", nil), par("volumes", nil),
			par("areas", nil), par("minRelease", nil), par("maxRelease", nil)},
		genTable: genStorageTable,
		inputs: []igen{
			in("rainfall", rainfall()), in("pet", pet()),
			in("inflow", func(x *ictx) []float64 {
				// scaled so that the storage fills/empties over a few to a few dozen timesteps
				st := decodeStorage(x.params, x.maxDim)
				scale := st.volumes[st.n-1] / st.deltaT * Float(x.c, 0.02, 1)
				return spells(x.c, x.T, 0.2*scale, scale)
			}),
			in("demand", func(x *ictx) []float64 {
				st := decodeStorage(x.params, x.maxDim)
				top := st.maxRelease[st.n-1] * 1.5
				return spells(x.c, x.T, 0.5*top, top)
			}),
			in("targetMinimumVolume", func(x *ictx) []float64 {
				st := decodeStorage(x.params, x.maxDim)
				return spells(x.c, x.T, 0.1*st.volumes[st.n-1], 0.5*st.volumes[st.n-1])
			}),
			in("targetMinimumCapacity", func(x *ictx) []float64 {
				st := decodeStorage(x.params, x.maxDim)
				return spells(x.c, x.T, 0.1*st.volumes[st.n-1], 0.5*st.volumes[st.n-1])
			}),
		},
	}
	defs["StorageDissolvedDecay"] = &modelDef{
		params: []pgen{
			decl("DeltaT"),
			par("doStorageDecay", func(c Chooser) float64 { return 1 - flag(c) }), // decay disabled is valid since the nil lateral-load series is treated as zero (fix 237b436)
			par("annualReturnInterval", rng(1, 100)),
			par("bankFullFlow", rng(0, 500)),
			par("medianFloodResidenceTime", rng(0, 10)),
		},
		inputs: []igen{in("inflowMass", load()), in("inflow", flow()), in("outflow", flow()), in("storageVolume", posVolume())},
	}
	defs["StorageParticulateTrapping"] = &modelDef{
		params: []pgen{
			decl("DeltaT"),
			par("reservoirCapacity", lrng(1e4, 1e10)),
			par("reservoirLength", rng(0, 50000)),
			par("subtractor", rng(100, 120)),
			par("multiplier", rng(0, 1000)),
			par("lengthDischargeFactor", rng(0.5, 10)),
			par("lengthDischargePower", rng(-0.5, -0.05)),
		},
		inputs: []igen{in("inflowLoad", load()), in("inflow", flow()), in("outflow", flow()), in("storage", posVolume())},
	}
	defs["StorageRouting"] = &modelDef{
		params: []pgen{
			par("InflowBias", func(c Chooser) float64 {
				if c.Choose(4) < 3 {
					return 0
				}
				return Float(c, 0.01, 0.3)
			}),
			par("RoutingConstant", lrng(600, 5e5)),
			par("RoutingPower", func(c Chooser) float64 {
				// choice 0 => 1.0 (linear routing); otherwise down to 0.31
				return 1 - 0.69*float64(c.Choose(4096))/4095
			}),
			par("area", rng(0, 1e6)),
			par("deadStorage", rng(0, 1e4)),
			decl("DeltaT"),
		},
		inputs: []igen{in("inflow", flow()), in("lateral", flow()), in("rainfall", rainfall()), in("evap", pet())},
	}
	defs["StorageTrapAll"] = &modelDef{
		inputs: []igen{in("inflowMass", load()), in("inflow", flow()), in("outflow", flow()), in("storageVolume", volume())},
	}
	defs["Sum"] = &modelDef{inputs: []igen{in("i1", generic()), in("i2", generic())}}
	defs["Surm"] = &modelDef{
		params: []pgen{
			par("bfac", fraction()),
			par("coeff", rng(0, 400)),
			par("dseep", fraction()),
			par("fcFrac", fraction()),
			par("fimp", fraction()),
			par("rfac", fraction()),
			par("smax", rng(10, 500)), // below 10 mm the ET term 10*S/smax can exceed the store S
			par("sq", rng(0, 10)),
			par("thres", rng(0, 5)),
		},
		inputs: []igen{in("rainfall", rainfall()), in("pet", pet())},
	}
	defs["USLEFineSedimentGeneration"] = &modelDef{
		params: []pgen{
			decl("S"), decl("P"), decl("RainThreshold"),
			par("Alpha", fraction()),
			decl("Beta"), decl("Eta"), decl("A1"), decl("A2"), decl("A3"), decl("DWC"),
			par("avK", rng(0, 0.1)),
			par("avLS", rng(0, 50)),
			par("avFines", percent()),
			par("area", areaM2()),
			decl("maxConc"), decl("usleHSDRFine"), decl("usleHSDRCoarse"),
			par("timeStepInSeconds", timestepFrom1(1e8)),
		},
		inputs: []igen{
			in("quickflow", flow()), in("baseflow", flow()), in("rainfall", rainfall()),
			in("KLSC", func(x *ictx) []float64 { return positive(x.c, x.T, 0, 5) }),
			in("KLSC_Fine", func(x *ictx) []float64 {
				// fine part is a fraction of the total KLSC
				k := x.done["KLSC"]
				out := make([]float64, x.T)
				for t := range out {
					out[t] = k[t] * Float(x.c, 0, 1)
				}
				return out
			}),
			in("CovOrCFact", frac01()),
			in("dayOfYear", doySeries()),
		},
	}
	defs["VariablePartition"] = &modelDef{inputs: []igen{in("input", generic()), in("fraction", frac01())}}

	validate()
}

// validate cross-checks the hand-written tables against the model descriptions
// so that drift in /repo is detected at init time rather than as a mysterious panic.
func validate() {
	for name, def := range defs {
		factory, ok := sim.Catalog[name]
		if !ok {
			panic("domains: model not in sim.Catalog: " + name)
		}
		d := factory().Description()
		if len(d.Parameters) != len(def.params) {
			panic(fmt.Sprintf("domains: %s: %d parameters described, %d defined", name, len(d.Parameters), len(def.params)))
		}
		for i, p := range d.Parameters {
			if p.Name != def.params[i].name {
				panic(fmt.Sprintf("domains: %s: parameter %d is %s, defined as %s", name, i, p.Name, def.params[i].name))
			}
			if def.params[i].gen == nil && !def.dimensioned && !(p.Range[0] < p.Range[1]) {
				panic(fmt.Sprintf("domains: %s.%s has no declared range and no generator", name, p.Name))
			}
		}
		if len(d.Inputs) != len(def.inputs) {
			panic(fmt.Sprintf("domains: %s: %d inputs described, %d defined", name, len(d.Inputs), len(def.inputs)))
		}
		for i, n := range d.Inputs {
			if n != def.inputs[i].name {
				panic(fmt.Sprintf("domains: %s: input %d is %s, defined as %s", name, i, n, def.inputs[i].name))
			}
		}
		if def.dimensioned != (len(d.Dimensions) > 0) {
			panic("domains: dimensioned mismatch for " + name)
		}
	}
}

// ---------------------------------------------------------------------------
// Storage tables

type storageTables struct {
	deltaT                                         float64
	n                                              int
	levels, volumes, areas, minRelease, maxRelease []float64
}

func decodeStorage(p []float64, maxDim int) storageTables {
	n := int(p[1])
	tab := func(k int) []float64 { return p[2+k*maxDim : 2+k*maxDim+n] }
	return storageTables{deltaT: p[0], n: n, levels: tab(0), volumes: tab(1), areas: tab(2), minRelease: tab(3), maxRelease: tab(4)}
}

// genStorageTable draws a Storage parameter column.
//
// Constraints (see models/storage/storage.go): the water balance is an explicit
// scheme whose sub-timestep is never reduced below 6 s and which panics when a
// trial volume is negative at that sub-timestep. So at volume 0 nothing may
// leave the storage (release 0, surface area 0), and all loss rates must be
// bounded by a small multiple of the current volume:
// maxRelease[i] <= volumes[i]/3600 and areas[i] <= volumes[i]/0.5 (mean depth
// >= 0.5 m), which (by the mediant inequality for piecewise-linear tables through
// the origin) bounds release(v)/v and area(v)/v for every v.
func genStorageTable(c Chooser, maxDim, n int) []float64 {
	out := make([]float64, 2+5*maxDim)
	r := sim.Catalog["Storage"]().Description().Parameters[0].Range
	out[0] = Float(c, r[0], r[1])
	out[1] = float64(n)
	levels := out[2 : 2+n]
	volumes := out[2+maxDim : 2+maxDim+n]
	areas := out[2+2*maxDim : 2+2*maxDim+n]
	minRel := out[2+3*maxDim : 2+3*maxDim+n]
	maxRel := out[2+4*maxDim : 2+4*maxDim+n]

	level := Float(c, 0, 100)
	vol := 0.0
	// one table in four starts above an empty reservoir: the first row is a dead storage (a positive
	// volume at which nothing is released and the surface area is still zero)
	if c.Choose(4) == 3 {
		vol = logFloat(c, 1e2, 1e5)
	}
	// one storage in eight is "unconfigured": a table without any volume, which the kernel rejects
	// (message, zero outputs, states untouched) - a defined behaviour that large networks rely on
	unconfigured := c.Choose(8) == 7
	for k := 0; k < n; k++ {
		if k > 0 {
			level += Float(c, 0.5, 10)
			vol += logFloat(c, 1e3, 1e7)
		}
		levels[k] = level
		volumes[k] = vol
	}
	if unconfigured {
		for k := range volumes {
			volumes[k] = 0
		}
		return out
	}
	const minMeanDepth = 0.5
	const maxReleasePerVolume = 1.0 / 3600
	for k := 1; k < n; k++ {
		a := volumes[k] / minMeanDepth * Float(c, 0.02, 1)
		if a < areas[k-1] {
			a = areas[k-1]
		}
		areas[k] = a
	}
	for k := 1; k < n; k++ {
		mx := volumes[k] * maxReleasePerVolume * logFloat(c, 1e-3, 1)
		if mx < maxRel[k-1] {
			mx = maxRel[k-1]
		}
		maxRel[k] = mx
	}
	for k := 1; k < n; k++ {
		mn := maxRel[k] * Float(c, 0, 0.5)
		if mn < minRel[k-1] {
			mn = minRel[k-1]
		}
		if mn > maxRel[k] {
			mn = maxRel[k]
		}
		minRel[k] = mn
	}
	return out
}

// ---------------------------------------------------------------------------
// exported API

// Models returns the sorted names of all models this package knows (must equal the sorted keys of sim.Catalog: 41 names).
func Models() []string {
	out := make([]string, 0, len(defs))
	for k := range defs {
		out = append(out, k)
	}
	sort.Strings(out)
	return out
}

func mustDef(model string) *modelDef {
	d, ok := defs[model]
	if !ok {
		panic("domains: unknown model " + model)
	}
	return d
}

// IsDimensioned reports whether the model has table-valued parameters (today: "RatingCurvePartition", "Storage").
func IsDimensioned(model string) bool { return mustDef(model).dimensioned }

// GenParams draws one parameter column for one cell, in the row layout that the model's
// generated ApplyParameters expects for a parameter matrix whose table dimension size is maxDim
// (ignored for non-dimensioned models: then len(result)==len(Description().Parameters)).
// For dimensioned models the layout is: each scalar parameter takes 1 row, each table parameter
// takes maxDim rows (the cell's own table length n, 2<=n<=maxDim, is stored in the dimension
// parameter's row; rows beyond n are padded with 0). If forceLen>0 the cell's own table length
// is forceLen (<=maxDim), otherwise it is drawn in [2,maxDim]. maxDim must be >=2 for
// dimensioned models (a one-point table cannot be interpolated: fn.Piecewise fails and the kernels panic).
func GenParams(c Chooser, model string, maxDim int, forceLen int) []float64 {
	def := mustDef(model)
	if def.dimensioned {
		if maxDim < 2 {
			panic("domains: maxDim must be >= 2 for dimensioned model " + model)
		}
		n := forceLen
		if n <= 0 {
			n = intIn(c, 2, maxDim)
		}
		if n < 2 || n > maxDim {
			panic(fmt.Sprintf("domains: forceLen %d outside [2,%d]", forceLen, maxDim))
		}
		return def.genTable(c, maxDim, n)
	}
	desc := sim.Catalog[model]().Description()
	out := make([]float64, len(def.params))
	for i, p := range def.params {
		if p.gen != nil {
			out[i] = p.gen(c)
		} else {
			r := desc.Parameters[i].Range
			out[i] = Float(c, r[0], r[1])
		}
	}
	if def.fix != nil {
		def.fix(c, out)
	}
	return out
}

// GenInputs draws the input series for one cell: result[input index][t], len(result)==len(Description().Inputs),
// each of length T (T>=0), consistent with the given parameter column.
func GenInputs(c Chooser, model string, params []float64, maxDim int, T int) [][]float64 {
	def := mustDef(model)
	if T < 0 {
		T = 0
	}
	x := &ictx{c: c, model: model, params: params, maxDim: maxDim, T: T, done: map[string][]float64{}}
	out := make([][]float64, len(def.inputs))
	for i, g := range def.inputs {
		s := g.gen(x)
		if len(s) != T {
			panic(fmt.Sprintf("domains: %s.%s generator returned %d values for T=%d", model, g.name, len(s), T))
		}
		out[i] = s
		x.done[g.name] = s
	}
	return out
}

// StateWidthClass returns an integer such that two parameter columns of the same model with the same class
// produce initial state vectors (model.InitialiseStates) of the same length. 0 for models with fixed-length states.
//
// GR4J: states are 4 + ceil(X4) + ceil(2*X4) wide; the class is ceil(2*X4) (1..8), which also fixes ceil(X4).
// Lag: states are int(timeLag) wide; the class is int(timeLag).
func StateWidthClass(model string, params []float64) int {
	switch model {
	case "GR4J":
		return int(math.Ceil(2 * params[3]))
	case "Lag":
		return int(params[0])
	}
	mustDef(model)
	return 0
}

// ForceStateWidthClass modifies params in place (minimally, e.g. only X4 / timeLag) so that StateWidthClass(model, params)==class,
// keeping the values inside the model's domain (class is clamped to the reachable classes). No-op for other models.
func ForceStateWidthClass(model string, params []float64, class int) {
	switch model {
	case "GR4J":
		if class < 1 {
			class = 1
		}
		if class > 8 {
			class = 8
		}
		if StateWidthClass(model, params) == class {
			return
		}
		if class == 1 {
			params[3] = 0.5
		} else {
			params[3] = float64(class)/2 - 0.125
		}
	case "Lag":
		if class < 0 {
			class = 0
		}
		if class > 6 {
			class = 6
		}
		params[0] = float64(class)
	default:
		mustDef(model)
	}
}
