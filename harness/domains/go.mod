module verif/domains

go 1.21

require github.com/flowmatters/openwater-core v0.0.0

require github.com/joelrahman/genny v0.0.0-20190825034740-e87a679b6495 // indirect

replace github.com/flowmatters/openwater-core => /repo
