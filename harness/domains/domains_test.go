package domains

import (
	"fmt"
	"math"
	"os"
	"os/exec"
	"sort"
	"strconv"
	"strings"
	"testing"

	"github.com/flowmatters/openwater-core/data"
	_ "github.com/flowmatters/openwater-core/models"
	"github.com/flowmatters/openwater-core/sim"
)

// ---------------------------------------------------------------------------
// choosers

type prng struct{ s uint64 }

func (p *prng) next() uint64 { // splitmix64
	p.s += 0x9e3779b97f4a7c15
	z := p.s
	z = (z ^ (z >> 30)) * 0xbf58476d1ce4e5b9
	z = (z ^ (z >> 27)) * 0x94d049bb133111eb
	return z ^ (z >> 31)
}

func (p *prng) Choose(n int) int {
	if n <= 1 {
		return 0
	}
	return int(p.next() % uint64(n))
}

type zeros struct{}

func (zeros) Choose(n int) int { return 0 }

// maxed always takes the last choice: the opposite corner of the domain.
type maxed struct{}

func (maxed) Choose(n int) int { return n - 1 }

// ---------------------------------------------------------------------------
// known T-dependent hazards in /repo (see the package comment)

// t0Unsafe lists models whose kernel panics when run with zero timesteps.
var t0Unsafe = map[string]bool{
	"InstreamDissolvedNutrientDecay": true, // instream_dissolved_nutrient.go: prevVolume := reachVolume.Get([0]) before the loop
	"StorageTrapAll":                 true, // trap_all.go: trappedMass.Set([0], trappedMass.Get([0])+...) unconditionally
}

// lagHazard reports the (T, timeLag) window in which models/routing/lag.go indexes lagged[i+T] out of range.
func lagHazard(T, lag int) bool { return T < lag && lag < 2*T }

// ---------------------------------------------------------------------------
// one scenario

type scenario struct {
	model  string
	N, T   int
	maxDim int
	// overrides used by the hazard probes
	forceClass    int // -1: cell 0 decides
	mixedClasses  bool
	patchParams   func(p []float64)
	skipHotStart  bool
	allowLagFixup bool
}

type outcome struct {
	nonFinite bool
	detail    string
}

func finite(v float64) bool { return !math.IsNaN(v) && !math.IsInf(v, 0) }

func allFinite(a data.NDFloat64) bool {
	if data.Product(a.Shape()) == 0 {
		return true
	}
	idx := a.NewIndex(0)
	shape := a.Shape()
	n := data.Product(shape)
	for i := 0; i < n; i++ {
		if !finite(a.Get(idx)) {
			return false
		}
		data.Increment(idx, shape)
	}
	return true
}

// runScenario builds everything from the Chooser and runs the model twice (cold start, then hot start
// from the final states). Any panic inside Run's per-cell goroutines kills the process.
func runScenario(t testing.TB, c Chooser, sc scenario) outcome {
	model := sim.Catalog[sc.model]()
	desc := model.Description()
	dimensioned := IsDimensioned(sc.model)

	cols := make([][]float64, sc.N)
	for j := 0; j < sc.N; j++ {
		forceLen := 0
		if j == 0 && dimensioned {
			forceLen = sc.maxDim // at least one cell must span the whole table dimension
		}
		cols[j] = GenParams(c, sc.model, sc.maxDim, forceLen)
		if sc.patchParams != nil {
			sc.patchParams(cols[j])
		}
	}
	if sc.forceClass >= 0 {
		ForceStateWidthClass(sc.model, cols[0], sc.forceClass)
		if got := StateWidthClass(sc.model, cols[0]); got != sc.forceClass && (sc.model == "GR4J" || sc.model == "Lag") {
			t.Fatalf("%s: ForceStateWidthClass(%d) gave class %d", sc.model, sc.forceClass, got)
		}
	}
	if sc.model == "Lag" && sc.allowLagFixup && lagHazard(sc.T, StateWidthClass(sc.model, cols[0])) {
		// stay out of the index-out-of-range window of lag.go: shorten the lag to T
		ForceStateWidthClass(sc.model, cols[0], sc.T)
	}
	class0 := StateWidthClass(sc.model, cols[0])
	if !sc.mixedClasses {
		for j := 1; j < sc.N; j++ {
			ForceStateWidthClass(sc.model, cols[j], class0)
			if got := StateWidthClass(sc.model, cols[j]); got != class0 {
				t.Fatalf("%s: cell %d has class %d after forcing %d", sc.model, j, got, class0)
			}
		}
	}

	rows := len(cols[0])
	if !dimensioned && rows != len(desc.Parameters) {
		t.Fatalf("%s: %d parameter rows, description has %d", sc.model, rows, len(desc.Parameters))
	}
	params := data.NewArray2DFloat64(rows, sc.N)
	for j, col := range cols {
		if len(col) != rows {
			t.Fatalf("%s: cell %d has %d rows, cell 0 has %d", sc.model, j, len(col), rows)
		}
		for r, v := range col {
			if !finite(v) {
				t.Fatalf("%s: non-finite parameter row %d: %v", sc.model, r, v)
			}
			params.Set2(r, j, v)
		}
	}

	if dimensioned {
		dims := model.FindDimensions(params)
		if len(dims) != 1 || dims[0] != sc.maxDim {
			t.Fatalf("%s: FindDimensions=%v, want [%d]", sc.model, dims, sc.maxDim)
		}
		model.InitialiseDimensions(dims)
	} else if dims := model.FindDimensions(params); len(dims) != 0 {
		t.Fatalf("%s: unexpected dimensions %v", sc.model, dims)
	}
	model.ApplyParameters(params)
	states := model.InitialiseStates(sc.N)
	if states.Len(sim.DIMS_CELL) != sc.N {
		t.Fatalf("%s: states for %d cells, want %d", sc.model, states.Len(sim.DIMS_CELL), sc.N)
	}

	nIn := len(desc.Inputs)
	inputs := data.NewArray3DFloat64(sc.N, nIn, sc.T)
	for j := 0; j < sc.N; j++ {
		series := GenInputs(c, sc.model, cols[j], sc.maxDim, sc.T)
		if len(series) != nIn {
			t.Fatalf("%s: %d input series, want %d", sc.model, len(series), nIn)
		}
		for i, s := range series {
			if len(s) != sc.T {
				t.Fatalf("%s: input %d has %d steps, want %d", sc.model, i, len(s), sc.T)
			}
			for ts, v := range s {
				if !finite(v) {
					t.Fatalf("%s: non-finite input %s[%d]=%v", sc.model, desc.Inputs[i], ts, v)
				}
				inputs.Set3(j, i, ts, v)
			}
		}
	}

	res := outcome{}
	passes := 2
	if sc.skipHotStart {
		passes = 1
	}
	for pass := 0; pass < passes; pass++ {
		outputs := sim.InitialiseOutputs(model, sc.T, sc.N)
		model.Run(inputs, states, outputs) // second pass: hot start from the final states of the first
		if !allFinite(outputs) || !allFinite(states) {
			res.nonFinite = true
			if res.detail == "" {
				res.detail = fmt.Sprintf("pass %d N=%d T=%d params(cell0)=%v", pass, sc.N, sc.T, cols[0])
			}
		}
	}
	return res
}

func drawScenario(c Chooser, model string) scenario {
	sc := scenario{model: model, forceClass: -1, allowLagFixup: true}
	sc.N = 1 + c.Choose(3)
	sc.T = c.Choose(26)
	if t0Unsafe[model] && sc.T == 0 {
		sc.T = 1
	}
	sc.maxDim = 2 + c.Choose(6)
	return sc
}

// ---------------------------------------------------------------------------
// tests

func catalogNames() []string {
	names := make([]string, 0, len(sim.Catalog))
	for k := range sim.Catalog {
		names = append(names, k)
	}
	sort.Strings(names)
	return names
}

func TestModelsMatchCatalog(t *testing.T) {
	want := catalogNames()
	got := Models()
	if len(want) != 41 {
		t.Errorf("catalog has %d models, expected 41", len(want))
	}
	if strings.Join(got, ",") != strings.Join(want, ",") {
		t.Fatalf("Models()=%v\ncatalog=%v", got, want)
	}
	if !sort.StringsAreSorted(got) {
		t.Fatalf("Models() not sorted")
	}
	for _, m := range got {
		want := len(sim.Catalog[m]().Description().Dimensions) > 0
		if IsDimensioned(m) != want {
			t.Errorf("IsDimensioned(%s)=%v", m, !want)
		}
	}
}

func TestFloat(t *testing.T) {
	if v := Float(zeros{}, 2, 5); v != 2 {
		t.Errorf("Float(0)=%v", v)
	}
	if v := Float(maxed{}, 2, 5); v != 5 {
		t.Errorf("Float(max)=%v", v)
	}
}

func seedBase() uint64 {
	if s := os.Getenv("DOMAINS_SEED_BASE"); s != "" {
		v, err := strconv.ParseUint(s, 10, 64)
		if err == nil {
			return v
		}
	}
	return 20261001
}

func seedCount() int {
	if s := os.Getenv("DOMAINS_SEEDS"); s != "" {
		if v, err := strconv.Atoi(s); err == nil && v > 0 {
			return v
		}
	}
	return 300
}

// TestAllModelsSurvive is the main validation: every model, 300 seeded draws plus the all-zeros
// and all-max corner, cold start and hot start, 1..3 cells, 0..25 timesteps.
func TestAllModelsSurvive(t *testing.T) {
	base := seedBase()
	nSeeds := seedCount()
	for mi, name := range Models() {
		runs, bad := 0, 0
		firstBad := ""
		record := func(o outcome) {
			runs++
			if o.nonFinite {
				bad++
				if firstBad == "" {
					firstBad = o.detail
				}
			}
		}
		record(runScenario(t, zeros{}, drawScenario(zeros{}, name)))
		{
			// all-zero choices but a non-trivial run length and several cells
			sc := drawScenario(zeros{}, name)
			sc.N, sc.T, sc.maxDim = 3, 25, 7
			record(runScenario(t, zeros{}, sc))
		}
		{
			sc := drawScenario(maxed{}, name)
			record(runScenario(t, maxed{}, sc))
		}
		for s := 0; s < nSeeds; s++ {
			c := &prng{s: base*1000003 + uint64(mi)*7919 + uint64(s)}
			c.next()
			record(runScenario(t, c, drawScenario(c, name)))
		}
		frac := float64(bad) / float64(runs)
		if bad > 0 {
			t.Logf("%-40s %d/%d runs with non-finite values (%.1f%%), first: %s", name, bad, runs, 100*frac, firstBad)
		}
		if frac > 0.05 {
			t.Errorf("%s: %.1f%% of runs produced non-finite values (limit 5%%)", name, 100*frac)
		}
	}
}

// TestStateWidthClasses checks that every reachable class can be forced and that equal classes give
// equal state widths.
func TestStateWidthClasses(t *testing.T) {
	for _, tc := range []struct {
		model  string
		lo, hi int
	}{{"GR4J", 1, 8}, {"Lag", 0, 6}} {
		for class := tc.lo; class <= tc.hi; class++ {
			widths := map[int]bool{}
			for s := 0; s < 20; s++ {
				c := &prng{s: uint64(s*31 + class)}
				p := GenParams(c, tc.model, 0, 0)
				ForceStateWidthClass(tc.model, p, class)
				if got := StateWidthClass(tc.model, p); got != class {
					t.Fatalf("%s: forced %d got %d", tc.model, class, got)
				}
				m := sim.Catalog[tc.model]()
				pm := data.NewArray2DFloat64(len(p), 1)
				for r, v := range p {
					pm.Set2(r, 0, v)
				}
				m.ApplyParameters(pm)
				widths[m.InitialiseStates(1).Len(sim.DIMS_STATE)] = true
			}
			if len(widths) != 1 {
				t.Errorf("%s class %d: state widths %v", tc.model, class, widths)
			}
		}
	}
	for _, m := range Models() {
		if m == "GR4J" || m == "Lag" {
			continue
		}
		p := GenParams(zeros{}, m, 3, 0)
		if StateWidthClass(m, p) != 0 {
			t.Errorf("%s: class != 0", m)
		}
		ForceStateWidthClass(m, p, 5) // must be a no-op
	}
}

// ---------------------------------------------------------------------------
// hazard probes: each runs in a child process because a panic inside Run's goroutines cannot be recovered.

const childEnv = "DOMAINS_CHILD"

func TestChildProbe(t *testing.T) {
	spec := os.Getenv(childEnv)
	if spec == "" {
		t.Skip("helper for the hazard probes")
	}
	f := strings.Split(spec, "|")
	kind, model := f[0], f[1]
	T, _ := strconv.Atoi(f[2])
	arg, _ := strconv.Atoi(f[3])
	sc := scenario{model: model, N: 1, T: T, maxDim: 3, forceClass: -1}
	var c Chooser = &prng{s: 12345}
	switch kind {
	case "plain":
	case "zeros":
		c = zeros{}
	case "class": // force the state width class of the single cell
		sc.forceClass = arg
	case "mixed": // two cells with different classes
		sc.N = 2
		sc.forceClass = arg
		sc.mixedClasses = true
		sc.patchParams = nil
		first := true
		sc.patchParams = func(p []float64) {
			if !first {
				ForceStateWidthClass(model, p, arg+3)
			}
			first = false
		}
	case "nodecay": // StorageDissolvedDecay with decay disabled
		sc.patchParams = func(p []float64) { p[1] = 0 }
	}
	runScenario(t, c, sc)
}

func childCrashes(t *testing.T, spec string) (bool, string) {
	cmd := exec.Command(os.Args[0], "-test.run=^TestChildProbe$", "-test.count=1")
	cmd.Env = append(os.Environ(), childEnv+"="+spec)
	out, err := cmd.CombinedOutput()
	if err == nil {
		return false, ""
	}
	msg := string(out)
	for _, line := range strings.Split(msg, "\n") {
		if strings.HasPrefix(line, "panic:") {
			return true, line
		}
	}
	if len(msg) > 300 {
		msg = msg[:300]
	}
	return true, msg
}

// TestZeroTimesteps documents which models survive T=0. A crash of a model that is not listed in
// t0Unsafe fails the test (the harness would be wrong to use T=0 for it).
func TestZeroTimesteps(t *testing.T) {
	if testing.Short() {
		t.Skip("spawns child processes")
	}
	for _, name := range Models() {
		for _, kind := range []string{"plain", "zeros"} {
			crashed, why := childCrashes(t, fmt.Sprintf("%s|%s|0|0", kind, name))
			switch {
			case crashed && !t0Unsafe[name]:
				t.Errorf("%s (%s) panics with T=0: %s", name, kind, why)
			case crashed:
				t.Logf("%s (%s) panics with T=0 as documented: %s", name, kind, why)
			case t0Unsafe[name]:
				t.Logf("%s (%s) is listed as T=0-unsafe but survived (fixed upstream?)", name, kind)
			}
		}
	}
}

// TestKnownHazards documents the remaining survivability hazards of /repo that the domain works around.
// They are logged, not asserted, so that a fix in /repo does not break this package.
func TestKnownHazards(t *testing.T) {
	if testing.Short() {
		t.Skip("spawns child processes")
	}
	for _, p := range []struct{ what, spec string }{
		{"Lag with T=2, timeLag=3 (T < lag < 2T)", "class|Lag|2|3"},
		{"Lag with T=4, timeLag=6 (T < lag < 2T)", "class|Lag|4|6"},
		{"Lag cells with different timeLag (2 and 5)", "mixed|Lag|10|2"},
		{"GR4J cells with different X4 classes (2 and 5)", "mixed|GR4J|10|2"},
		{"StorageDissolvedDecay with doStorageDecay=0", "nodecay|StorageDissolvedDecay|5|0"},
	} {
		crashed, why := childCrashes(t, p.spec)
		t.Logf("%-55s crashed=%v %s", p.what, crashed, why)
	}
	// and the safe side of the Lag window must really be safe
	for _, spec := range []string{"class|Lag|2|2", "class|Lag|2|4", "class|Lag|1|6", "class|Lag|3|6", "class|Lag|0|6", "class|Lag|25|0"} {
		if crashed, why := childCrashes(t, spec); crashed {
			t.Errorf("Lag %s should be safe but crashed: %s", spec, why)
		}
	}
}
