module verif/harness

go 1.26

require (
	github.com/anishathalye/porcupine v1.3.0
	github.com/flowmatters/openwater-core v0.0.0
	gonum.org/v1/hdf5 v0.0.0-20210714002203-8c5d23bc6946
	verif/domains v0.0.0
	verif/simrt v0.0.0
)

replace github.com/flowmatters/openwater-core => /repo

replace gonum.org/v1/hdf5 => /verif/fakehdf5

replace verif/simrt => /verif/simrt

replace verif/domains => /verif/harness/domains
