package driver

// Generic adapter over the eight generated element-type instantiations of the array package,
// the C-backed arrays and the HDF5 references, so that the history engines are written once.

import (
	"unsafe"

	"github.com/flowmatters/openwater-core/data"
	"github.com/flowmatters/openwater-core/data/cdata"
	owio "github.com/flowmatters/openwater-core/io"
)

type num interface {
	~float64 | ~float32 | ~int32 | ~uint32 | ~int64 | ~uint64 | ~int | ~uint
}

// arr is the NDxxx interface of element type T; A is the interface type itself.
type arr[T num, A any] interface {
	Len(axis int) int
	Shape() []int
	NDims() int
	NewIndex(val int) []int
	Get(loc []int) T
	Set(loc []int, val T)
	Slice(loc []int, dims []int, step []int) A
	Apply(loc []int, dim int, step int, vals []T)
	ApplySlice(loc []int, step []int, vals A)
	CopyFrom(other A)
	Contiguous() bool
	Unroll() []T
	Reshape(newShape []int) (A, error)
	MustReshape(newShape []int) A
	ReshapeFast(newShape []int) (A, error)
	Maximum() T
	Minimum() T
}

type h5ref[T num, A any] interface {
	Load() (A, error)
	Write(a A) error
	WriteSlice(a A, loc []int) error
	Create(shape []int, fill T, compress bool) error
	Exists() bool
	Shape() ([]int, error)
	GetDatasets() ([]string, error)
	GetGroups() ([]string, error)
	LoadText() ([]string, error)
}

type kit[T num, A arr[T, A]] struct {
	name      string
	elemSize  int
	cSize     int // size of the C element type behind the C-backed array (Go int <-> C int: 4 bytes)
	cGet      func(c *cbuf, i int) float64
	cSet      func(c *cbuf, i int, v float64)
	newGo     func(dims []int) A
	fromSlice func(vals []T, dims []int) A
	newC      func(ptr unsafe.Pointer, dims []int) A
	scale     func(dest, src A, s T)
	addTo     func(dest, src A)
	applyFn   func(dest, src A, fn func(T) T)
	ref       func(file, ds string, sel [][]int) h5ref[T, A]
}

var kitFloat64 = kit[float64, data.NDFloat64]{
	name: "float64", elemSize: int(unsafe.Sizeof(float64(0))),
	cSize:     int(unsafe.Sizeof(float64(0))),
	cGet:      func(c *cbuf, i int) float64 { return float64(unsafeSlice[float64](c, i+1)[i]) },
	cSet:      func(c *cbuf, i int, v float64) { unsafeSlice[float64](c, i+1)[i] = float64(v) },
	newGo:     data.NewArrayFloat64,
	fromSlice: data.ArrayFromSliceFloat64,
	newC:      cdata.NewFloat64CArray,
	scale:     data.ScaleFloat64Array,
	addTo:     data.AddToFloat64Array,
	applyFn:   data.ApplyFunc1Float64,
	ref: func(file, ds string, sel [][]int) h5ref[float64, data.NDFloat64] {
		return owio.H5RefFloat64{Filename: file, Dataset: ds, Slice: sel}
	},
}

var kitFloat32 = kit[float32, data.NDFloat32]{
	name: "float32", elemSize: int(unsafe.Sizeof(float32(0))),
	cSize:     int(unsafe.Sizeof(float32(0))),
	cGet:      func(c *cbuf, i int) float64 { return float64(unsafeSlice[float32](c, i+1)[i]) },
	cSet:      func(c *cbuf, i int, v float64) { unsafeSlice[float32](c, i+1)[i] = float32(v) },
	newGo:     data.NewArrayFloat32,
	fromSlice: data.ArrayFromSliceFloat32,
	newC:      cdata.NewFloat32CArray,
	scale:     data.ScaleFloat32Array,
	addTo:     data.AddToFloat32Array,
	applyFn:   data.ApplyFunc1Float32,
	ref: func(file, ds string, sel [][]int) h5ref[float32, data.NDFloat32] {
		return owio.H5RefFloat32{Filename: file, Dataset: ds, Slice: sel}
	},
}

var kitInt32 = kit[int32, data.NDInt32]{
	name: "int32", elemSize: int(unsafe.Sizeof(int32(0))),
	cSize:     int(unsafe.Sizeof(int32(0))),
	cGet:      func(c *cbuf, i int) float64 { return float64(unsafeSlice[int32](c, i+1)[i]) },
	cSet:      func(c *cbuf, i int, v float64) { unsafeSlice[int32](c, i+1)[i] = int32(v) },
	newGo:     data.NewArrayInt32,
	fromSlice: data.ArrayFromSliceInt32,
	newC:      cdata.NewInt32CArray,
	scale:     data.ScaleInt32Array,
	addTo:     data.AddToInt32Array,
	applyFn:   data.ApplyFunc1Int32,
	ref: func(file, ds string, sel [][]int) h5ref[int32, data.NDInt32] {
		return owio.H5RefInt32{Filename: file, Dataset: ds, Slice: sel}
	},
}

var kitUint32 = kit[uint32, data.NDUint32]{
	name: "uint32", elemSize: int(unsafe.Sizeof(uint32(0))),
	cSize:     int(unsafe.Sizeof(uint32(0))),
	cGet:      func(c *cbuf, i int) float64 { return float64(unsafeSlice[uint32](c, i+1)[i]) },
	cSet:      func(c *cbuf, i int, v float64) { unsafeSlice[uint32](c, i+1)[i] = uint32(v) },
	newGo:     data.NewArrayUint32,
	fromSlice: data.ArrayFromSliceUint32,
	newC:      cdata.NewUint32CArray,
	scale:     data.ScaleUint32Array,
	addTo:     data.AddToUint32Array,
	applyFn:   data.ApplyFunc1Uint32,
	ref: func(file, ds string, sel [][]int) h5ref[uint32, data.NDUint32] {
		return owio.H5RefUint32{Filename: file, Dataset: ds, Slice: sel}
	},
}

var kitInt64 = kit[int64, data.NDInt64]{
	name: "int64", elemSize: int(unsafe.Sizeof(int64(0))),
	cSize:     int(unsafe.Sizeof(int64(0))),
	cGet:      func(c *cbuf, i int) float64 { return float64(unsafeSlice[int64](c, i+1)[i]) },
	cSet:      func(c *cbuf, i int, v float64) { unsafeSlice[int64](c, i+1)[i] = int64(v) },
	newGo:     data.NewArrayInt64,
	fromSlice: data.ArrayFromSliceInt64,
	newC:      cdata.NewInt64CArray,
	scale:     data.ScaleInt64Array,
	addTo:     data.AddToInt64Array,
	applyFn:   data.ApplyFunc1Int64,
	ref: func(file, ds string, sel [][]int) h5ref[int64, data.NDInt64] {
		return owio.H5RefInt64{Filename: file, Dataset: ds, Slice: sel}
	},
}

var kitUint64 = kit[uint64, data.NDUint64]{
	name: "uint64", elemSize: int(unsafe.Sizeof(uint64(0))),
	cSize:     int(unsafe.Sizeof(uint64(0))),
	cGet:      func(c *cbuf, i int) float64 { return float64(unsafeSlice[uint64](c, i+1)[i]) },
	cSet:      func(c *cbuf, i int, v float64) { unsafeSlice[uint64](c, i+1)[i] = uint64(v) },
	newGo:     data.NewArrayUint64,
	fromSlice: data.ArrayFromSliceUint64,
	newC:      cdata.NewUint64CArray,
	scale:     data.ScaleUint64Array,
	addTo:     data.AddToUint64Array,
	applyFn:   data.ApplyFunc1Uint64,
	ref: func(file, ds string, sel [][]int) h5ref[uint64, data.NDUint64] {
		return owio.H5RefUint64{Filename: file, Dataset: ds, Slice: sel}
	},
}

var kitInt = kit[int, data.NDInt]{
	name: "int", elemSize: int(unsafe.Sizeof(int(0))),
	cSize:     int(unsafe.Sizeof(int32(0))),
	cGet:      func(c *cbuf, i int) float64 { return float64(unsafeSlice[int32](c, i+1)[i]) },
	cSet:      func(c *cbuf, i int, v float64) { unsafeSlice[int32](c, i+1)[i] = int32(v) },
	newGo:     data.NewArrayInt,
	fromSlice: data.ArrayFromSliceInt,
	newC:      cdata.NewIntCArray,
	ref: func(file, ds string, sel [][]int) h5ref[int, data.NDInt] {
		return owio.H5RefInt{Filename: file, Dataset: ds, Slice: sel}
	},
}

var kitUint = kit[uint, data.NDUint]{
	name: "uint", elemSize: int(unsafe.Sizeof(uint(0))),
	cSize:     int(unsafe.Sizeof(uint32(0))),
	cGet:      func(c *cbuf, i int) float64 { return float64(unsafeSlice[uint32](c, i+1)[i]) },
	cSet:      func(c *cbuf, i int, v float64) { unsafeSlice[uint32](c, i+1)[i] = uint32(v) },
	newGo:     data.NewArrayUint,
	fromSlice: data.ArrayFromSliceUint,
	newC:      cdata.NewUintCArray,
	ref: func(file, ds string, sel [][]int) h5ref[uint, data.NDUint] {
		return owio.H5RefUint{Filename: file, Dataset: ds, Slice: sel}
	},
}

const numKits = 8

var kitNames = []string{"float64", "float32", "int32", "uint32", "int64", "uint64", "int", "uint"}
