package driver

import (
	"os"
	"os/exec"
	"time"
	"bytes"
	"encoding/json"
	"errors"
	"fmt"
	"io"
	"math"
	"regexp"
	"runtime/debug"
	"strings"

	"github.com/flowmatters/openwater-core/sim"
	"verif/domains"
	"verif/simrt"
)

// engine "jsonrun": C17.  The seam is the io.Reader/io.Writer pair of sim.RunSingleModelJSON.
// Faults on the seam: delivery in chunks of seeded sizes, truncation at EVERY byte offset of
// the request (exhaustive per request), single-byte corruption / insertion / deletion, a reader
// error in mid-stream, trailing garbage.

func init() { engines["jsonrun"] = engineJSON }

type faultyReader struct {
	data   []byte
	pos    int
	chunks func() int // next chunk size (>=1)
	errAt  int        // return errMid once pos reaches errAt (-1: never)
	// keepOpen: the client keeps its end of the stream open until it has received the answer
	// (a pipe or socket): after the last byte Read blocks until answered is closed
	keepOpen chan struct{}
}

var errMid = errors.New("simulated read error: connection reset")

func (r *faultyReader) Read(p []byte) (int, error) {
	if r.errAt >= 0 && r.pos >= r.errAt {
		return 0, errMid
	}
	if r.pos >= len(r.data) {
		if r.keepOpen != nil {
			simrt.Yield("jsonrun:client-waits-for-answer<")
			<-r.keepOpen
			simrt.Yield("jsonrun:client-waits-for-answer>")
		}
		return 0, io.EOF
	}
	n := r.chunks()
	if n > len(p) {
		n = len(p)
	}
	if n > len(r.data)-r.pos {
		n = len(r.data) - r.pos
	}
	if r.errAt >= 0 && r.pos+n > r.errAt {
		n = r.errAt - r.pos
	}
	if n == 0 {
		return 0, errMid
	}
	copy(p, r.data[r.pos:r.pos+n])
	r.pos += n
	return n, nil
}

type recordingWriter struct {
	buf      bytes.Buffer
	writes   int
	failAt   int           // >=0: the peer goes away after this many bytes
	answered chan struct{} // closed at the first byte of the answer (the client then closes its stream)
}

var errPeerGone = errors.New("simulated write error: broken pipe")

func (w *recordingWriter) Write(p []byte) (int, error) {
	w.writes++
	if w.answered != nil && w.writes == 1 {
		close(w.answered)
	}
	if w.failAt >= 0 {
		room := w.failAt - w.buf.Len()
		if room <= 0 {
			return 0, errPeerGone
		}
		if len(p) > room {
			w.buf.Write(p[:room])
			return room, errPeerGone
		}
	}
	return w.buf.Write(p)
}

// request model of the harness (independent of sim's unexported types)
type reqValue struct {
	Name  string
	Value float64
}
type reqInput struct {
	Name   string
	Values []float64
}
type request struct {
	Name       string     `json:"Name,omitempty"`
	Inputs     []reqInput `json:"Inputs,omitempty"`
	States     []reqValue `json:"States,omitempty"`
	Parameters []reqValue `json:"Parameters,omitempty"`
}

type response struct {
	Log        []string
	RunResults struct {
		Outputs interface{}
		States  interface{}
	}
}

// parseOneDocument: strict - exactly one JSON value followed only by white space.
func parseOneDocument(b []byte) (*response, map[string]json.RawMessage, error) {
	dec := json.NewDecoder(bytes.NewReader(b))
	var raw map[string]json.RawMessage
	if err := dec.Decode(&raw); err != nil {
		return nil, nil, fmt.Errorf("not a JSON object: %v", err)
	}
	rest, _ := io.ReadAll(dec.Buffered())
	tail := string(rest) + string(b[len(b)-restLen(dec, b):])
	_ = tail
	// anything after the first document?
	var extra json.RawMessage
	if err := dec.Decode(&extra); err != io.EOF {
		return nil, nil, fmt.Errorf("more than one JSON document or trailing garbage after the first one")
	}
	for k := range raw {
		if k != "Log" && k != "RunResults" {
			return nil, nil, fmt.Errorf("unexpected top-level key %q", k)
		}
	}
	if _, ok := raw["Log"]; !ok {
		return nil, nil, fmt.Errorf("no Log key")
	}
	if _, ok := raw["RunResults"]; !ok {
		return nil, nil, fmt.Errorf("no RunResults key")
	}
	var resp response
	d2 := json.NewDecoder(bytes.NewReader(b))
	d2.DisallowUnknownFields()
	if err := d2.Decode(&resp); err != nil {
		return nil, nil, fmt.Errorf("document does not have the Log/RunResults shape: %v", err)
	}
	return &resp, raw, nil
}

func restLen(dec *json.Decoder, b []byte) int { return 0 }

// toFloat converts a JSON-safe value back: numbers, or the strings NaN, +Inf, -Inf.
func toFloat(v interface{}) (float64, error) {
	switch x := v.(type) {
	case float64:
		return x, nil
	case string:
		switch x {
		case "NaN":
			return math.NaN(), nil
		case "+Inf":
			return math.Inf(1), nil
		case "-Inf":
			return math.Inf(-1), nil
		}
		return 0, fmt.Errorf("string %q is not one of NaN, +Inf, -Inf", x)
	}
	return 0, fmt.Errorf("value %v (%T) is neither a number nor a non-finite marker", v, v)
}

func sameValue(got interface{}, want float64) error {
	g, err := toFloat(got)
	if err != nil {
		return err
	}
	if math.IsNaN(want) || math.IsInf(want, 0) {
		if _, isStr := got.(string); !isStr {
			return fmt.Errorf("non-finite value %v not encoded as a string", want)
		}
	}
	if bitsEq(g, want) || (math.IsNaN(g) && math.IsNaN(want)) || g == want {
		// JSON cannot distinguish -0 from 0 reliably; numeric equality is what the format carries
		return nil
	}
	return fmt.Errorf("got %v, direct run gives %v", g, want)
}

var crashFuncRe = regexp.MustCompile(`(?m)^github\.com/flowmatters/openwater-core/([A-Za-z0-9_/.\-]+?)\.((?:\(\*?[A-Za-z0-9_]+\)\.)?[A-Za-z0-9_]+)(?:\.func[0-9.]+)*\(`)

// crashSite names the function of the code under test in which a panic was raised (first frame
// outside the array package and the generated wrappers): stable under line shifts.
func crashSite(stack string) string {
	all := crashFuncRe.FindAllStringSubmatch(stack, -1)
	for _, m := range all {
		if strings.HasPrefix(m[1], "data") {
			continue
		}
		if strings.HasSuffix(m[2], ").Run") || strings.HasSuffix(m[2], ").InitialiseStates") || strings.HasSuffix(m[2], ").ApplyParameters") {
			continue
		}
		return m[1] + "." + m[2]
	}
	if len(all) > 0 {
		return all[0][1] + "." + all[0][2]
	}
	return "unknown"
}

type directResult struct {
	out   []float64 // [nOut][T]
	fin   []float64
	T     int
	crash *simrt.Crash
}

// directRun: the property's reference - a one-cell Run with the named parameters (defaults for
// missing ones) and the supplied inputs (zero for missing ones), set up like the runner does
// (no table dimensions: the request format has scalar parameters only).
func directRun(desc sim.ModelDescription, name string, req *request, T int) directResult {
	params := make([]float64, len(desc.Parameters))
	for i, p := range desc.Parameters {
		params[i] = p.Default
		for _, v := range req.Parameters {
			if v.Name == p.Name {
				params[i] = v.Value
				break
			}
		}
	}
	m := sim.Catalog[name]()
	m.ApplyParameters(paramMatrix(false, [][]float64{params}))
	st := m.InitialiseStates(1)
	nIn := len(desc.Inputs)
	iv := make([]float64, nIn*T)
	for k, in := range desc.Inputs {
		for _, ri := range req.Inputs {
			if ri.Name == in {
				copy(iv[k*T:(k+1)*T], ri.Values)
				break
			}
		}
	}
	inputs := mk3(false, 1, nIn, T, iv)
	out := mk3(false, 1, len(desc.Outputs), T, nil)
	m.Run(inputs, st, out)
	return directResult{out: flat3(out), fin: flat2(st), T: T}
}

func firstLen(desc sim.ModelDescription, req *request) (T int, supplied int, unequal bool) {
	T = -1
	for _, in := range desc.Inputs {
		for _, ri := range req.Inputs {
			if ri.Name == in {
				if ri.Values == nil {
					// an entry without a Values array is a missing input (zero-filled and reported)
					break
				}
				supplied++
				if T < 0 {
					T = len(ri.Values)
				} else if len(ri.Values) != T {
					unequal = true
				}
				break
			}
		}
	}
	return
}

// non-finite recipes: requests whose direct run yields NaN / +Inf / -Inf
func nonFiniteRequest(k int) *request {
	switch k % 4 {
	case 3: // the largest finite values: still numbers
		return &request{Name: "Sum", Inputs: []reqInput{{"i1", []float64{math.MaxFloat64, -math.MaxFloat64, 5e-324}}, {"i2", []float64{0, 0, 0}}}}
	case 0: // 0/0
		return &request{Name: "DepthToRate", Parameters: []reqValue{{"DeltaT", 0}, {"area", 0}}, Inputs: []reqInput{{"input", []float64{0, 1, 0}}}}
	case 1: // overflow to +Inf
		return &request{Name: "ApplyScalingFactor", Parameters: []reqValue{{"scale", 1e10}}, Inputs: []reqInput{{"input", []float64{1e305, 2, -1e305}}}}
	}
	return &request{Name: "Sum", Inputs: []reqInput{{"i1", []float64{1.7e308, -1.7e308, 1}}, {"i2", []float64{1.7e308, -1.7e308, 2}}}}
}

func drawRequest(w *simrt.Tape) (*request, string) {
	names := catalog()
	kind := w.Choose(20)
	switch kind {
	case 17:
		// (the name is echoed in the answer: characters that need escaping in JSON must still give a
		// valid document)
		odd := []string{"", "", "", "\x00", "\x07 bell", "<b>&amp;</b>", "\x7f", "\"quoted\"\\", "\u2028\U0001F4A7"}[w.Choose(9)]
		return &request{Name: "NoSuchModel" + fmt.Sprint(w.Choose(3)) + odd}, "unknown-model"
	case 18:
		return &request{Parameters: []reqValue{{"x", 1}}}, "no-name"
	case 19:
		return nonFiniteRequest(w.Choose(4)), "non-finite"
	case 16:
		if w.Bool(50) {
			// a size-like parameter with a negative value: the run cannot even be set up (the state
			// vector cannot be allocated); the answer is one document that says so
			v := -float64(1 + w.Choose(5))
			if w.Bool(50) {
				return &request{Name: "Lag", Parameters: []reqValue{{"timeLag", v}}, Inputs: []reqInput{{"inflow", []float64{1, 2, 3}}}}, "cannot-be-set-up"
			}
			return &request{Name: "GR4J", Parameters: []reqValue{{"X1", 300}, {"X2", 1}, {"X3", 40}, {"X4", 10 * v}}, Inputs: []reqInput{{"rainfall", []float64{1, 2, 3}}, {"pet", []float64{1, 1, 1}}}}, "cannot-be-set-up"
		}
	}
	name := names[w.Choose(len(names))]
	desc := sim.Catalog[name]().Description()
	req := &request{Name: name}
	tag := "complete"
	maxDim := 0
	if domains.IsDimensioned(name) {
		maxDim = 2
		tag = "table-model"
	}
	col := domains.GenParams(w, name, maxDim, maxDim)
	// scalar view of the column: one value per declared parameter (table parameters get their
	// first entry; the request format cannot carry tables)
	l := layoutOf(desc, maxDim)
	omit := w.Choose(4) // 0: all supplied, 1..3: omit some
	for i, p := range desc.Parameters {
		if omit > 0 && w.Bool(30) {
			tag = "defaults"
			if w.Bool(30) {
				// a stranger whose name differs from the omitted parameter's only in letter case (names
				// are case sensitive: the parameter still takes its default)
				if v := swapFirstLetterCase(p.Name); v != p.Name {
					req.Parameters = append(req.Parameters, reqValue{v, col[l.start[i]]*1.5 + 1})
				}
			}
			continue
		}
		req.Parameters = append(req.Parameters, reqValue{p.Name, col[l.start[i]]})
	}
	if w.Bool(15) {
		req.Parameters = append(req.Parameters, reqValue{"notAParameter", 3.5})
	}
	if n := len(req.Parameters); n > 1 && w.Bool(40) {
		i, j := w.Choose(n), w.Choose(n)
		req.Parameters[i], req.Parameters[j] = req.Parameters[j], req.Parameters[i]
	}
	T := sizeDraw(w, 12, 70)
	if maxDim == 0 && w.Choose(25) == 24 {
		// every series empty: a run over zero timesteps.  The runner must answer whatever the kernel
		// makes of an empty series (a kernel that indexes it crashes the process: StorageTrapAll did)
		T = 0
	}
	ins := domains.GenInputs(w, name, col, maxDim, T)
	lenKind := w.Choose(10) // 0..6 equal, 7 one shorter, 8 one longer, 9 some missing
	for k, in := range desc.Inputs {
		vals := ins[k]
		if lenKind == 9 && w.Bool(50) {
			if tag == "complete" || tag == "defaults" {
				tag = "missing-inputs"
			}
			continue
		}
		if lenKind == 7 && k == len(desc.Inputs)-1 && len(desc.Inputs) > 1 && T > 1 {
			vals = vals[:T-1]
			tag = "unequal-lengths"
		}
		if lenKind == 8 && k == len(desc.Inputs)-1 && len(desc.Inputs) > 1 && T > 0 {
			vals = append(cloneF(vals), vals[0])
			tag = "unequal-lengths"
		}
		req.Inputs = append(req.Inputs, reqInput{in, vals})
	}
	if w.Bool(10) {
		req.Inputs = append(req.Inputs, reqInput{"notAnInput", []float64{1, 2}})
	}
	if w.Bool(25) {
		// a States list (complete, or one entry short) with non-zero values: the runner
		// initialises the states itself, the list must not change the run
		for i, s := range desc.States {
			if i == len(desc.States)-1 && w.Bool(30) {
				break
			}
			req.States = append(req.States, reqValue{s, float64(1 + w.Choose(40))})
		}
	}
	return req, tag
}

type delivery struct {
	what     string
	data     []byte
	errAt    int
	chunky   bool
	writerAt int // >0: the writer fails after this many bytes (the answer itself is not asserted)
	keepOpen bool
	slow     bool // the client takes minutes (of simulated time) to deliver the request
}

func engineJSON(rc *RunCtx) *Outcome {
	o := &Outcome{}
	w := rc.W
	req, tag := drawRequest(w)
	split := w.Bool(50)
	huge := false
	if w.Choose(60) == 59 {
		// a very long series (more than 2^16 timesteps): only delivered complete
		req, tag, huge = hugeRequest(w), "complete", true
		split = w.Bool(70)
	}
	doc, err := json.Marshal(req)
	if err != nil {
		panic(err)
	}
	if w.Bool(20) {
		var pretty bytes.Buffer
		json.Indent(&pretty, doc, "", []string{" ", "\t"}[w.Choose(2)])
		doc = pretty.Bytes()
		if w.Bool(30) {
			doc = bytes.ReplaceAll(doc, []byte("\n"), []byte("\r\n")) // a file written on another platform
		}
	}
	if w.Bool(15) {
		// members the runner does not know (a comment, an id, units inside an entry): they are
		// ignored, the request is otherwise the same
		var generic map[string]interface{}
		if json.Unmarshal(doc, &generic) == nil && generic != nil {
			generic["Comment"] = "calibration run 7"
			generic["Id"] = 7
			if ins, ok := generic["Inputs"].([]interface{}); ok && len(ins) > 0 {
				if e, ok := ins[0].(map[string]interface{}); ok {
					e["Units"] = "mm"
				}
			}
			if d2, err := json.Marshal(generic); err == nil {
				doc = d2
				o.probe("request_with_foreign_members")
			}
		}
	}
	if w.Bool(25) {
		// insignificant whitespace around the document (all four JSON whitespace bytes)
		ws := func() []byte {
			b := make([]byte, 1+w.Choose(4))
			for i := range b {
				b[i] = " \n\t\r"[w.Choose(4)]
			}
			return b
		}
		if w.Bool(70) {
			doc = append(ws(), doc...)
		}
		if w.Bool(50) {
			doc = append(doc, ws()...)
		}
		o.probe("request_with_surrounding_whitespace")
	}
	o.Sample = map[string]interface{}{"request_kind": tag, "model": req.Name, "split": split, "bytes": len(doc), "request": string(head64(doc, 400))}

	// deliveries: the complete document (chunked), every truncation, sampled byte faults
	var ds []delivery
	if w.Bool(30) {
		// the peer of an EARLIER request went away while its answer was being written: nothing is
		// asserted about that answer, but the requests that follow in the same process must be
		// answered as if nothing had happened
		ds = append(ds, delivery{what: "writer-fails", data: doc, errAt: -1, chunky: true, writerAt: 1 + rc.S.Choose(40)})
	}
	ds = append(ds, delivery{what: "complete", data: doc, errAt: -1, chunky: true})
	if !huge {
		// the client sends the complete document and waits for the answer before closing its end
		ds = append(ds, delivery{what: "complete-stream-kept-open", data: doc, errAt: -1, chunky: true, keepOpen: true})
	}
	if !huge && w.Bool(40) {
		// a slow producer: pauses of up to several minutes between the chunks (fake clock): how long the
		// client takes to send a request is not an argument of the run
		ds = append(ds, delivery{what: "complete-slow-client", data: doc, errAt: -1, chunky: true, slow: true})
	}
	ds = append(ds, delivery{what: "trailing-garbage", data: append(append([]byte{}, doc...), []byte("\n}{ garbage 123")...), errAt: -1, chunky: true})
	for cut := 0; cut < len(doc) && !huge; cut++ {
		ds = append(ds, delivery{what: fmt.Sprintf("truncated@%d", cut), data: doc[:cut], errAt: -1})
	}
	nByte := 12
	if huge {
		nByte = 0
		ds = ds[:1]
		if ds[0].what != "complete" {
			ds = []delivery{{what: "complete", data: doc, errAt: -1, chunky: true}}
		}
		o.probe("request_with_more_than_65536_timesteps")
	}
	if rc.Tier == "thorough" {
		nByte = 40
	}
	for k := 0; k < nByte && len(doc) > 0; k++ {
		pos := rc.S.Choose(len(doc))
		b := append([]byte{}, doc...)
		switch rc.S.Choose(4) {
		case 0:
			b[pos] = byte(rc.S.Choose(256))
			ds = append(ds, delivery{what: fmt.Sprintf("byte-corrupted@%d", pos), data: b, errAt: -1, chunky: true})
		case 1:
			b = append(b[:pos], append([]byte{byte(32 + rc.S.Choose(95))}, b[pos:]...)...)
			ds = append(ds, delivery{what: fmt.Sprintf("byte-inserted@%d", pos), data: b, errAt: -1, chunky: true})
		case 2:
			b = append(b[:pos], b[pos+1:]...)
			ds = append(ds, delivery{what: fmt.Sprintf("byte-deleted@%d", pos), data: b, errAt: -1, chunky: true})
		case 3:
			ds = append(ds, delivery{what: fmt.Sprintf("reader-error@%d", pos), data: doc, errAt: pos, chunky: true})
		}
	}

	var cur string
	var curData []byte
	s := simrt.Run(rc.T, simrt.Config{}, simrt.ReplayTape(nil), func() {
		for _, d := range ds {
			cur = d.what
			curData = d.data
			o.Evals++
			kindOf := strings.SplitN(d.what, "@", 2)[0]
			o.fault(kindOf)
			o.SubHashes = append(o.SubHashes, hashStr(d.what))
			rd := &faultyReader{data: d.data, errAt: d.errAt, chunks: func() int { return 1 << 20 }}
			var answered chan struct{}
			if d.keepOpen {
				answered = make(chan struct{})
				rd.keepOpen = answered
			}
			if d.chunky {
				rd.chunks = func() int { return 1 + rc.S.Choose(9)*rc.S.Choose(9) }
			}
			if d.slow {
				pauses := 0
				rd.chunks = func() int {
					if pauses < 6 {
						pauses++
						time.Sleep(time.Duration(1+rc.S.Choose(120)) * time.Second)
					}
					return 1 + rc.S.Choose(9)*rc.S.Choose(9)
				}
			}
			wr := &recordingWriter{failAt: -1, answered: answered}
			if d.writerAt > 0 {
				wr.failAt = d.writerAt
			}
			var escaped interface{}
			var escStack string
			func() {
				defer func() {
					if escaped = recover(); escaped != nil {
						escStack = string(debug.Stack())
					}
				}()
				sim.RunSingleModelJSON(rd, wr, split)
			}()
			if escaped != nil {
				o.fail("panic-escapes", "panic-escapes@"+crashSite(escStack), "RunSingleModelJSON panicked (%v) for a %s request, delivery %s: %s", escaped, tag, d.what, head64(d.data, 300))
				return
			}
			if d.writerAt > 0 {
				continue
			}
			resp, raw, perr := parseOneDocument(wr.buf.Bytes())
			if perr != nil {
				o.fail("not-one-document", "not-one-document", "delivery %s of a %s request: the writer did not receive exactly one well-formed result document (%v): %q", d.what, tag, perr, head64(wr.buf.Bytes(), 300))
				return
			}
			_ = raw
			// what should the answer be?  decode the delivered bytes the way a JSON reader would
			delivered := d.data
			if d.errAt >= 0 && d.errAt < len(delivered) {
				delivered = delivered[:d.errAt]
			}
			var got request
			derr := json.NewDecoder(bytes.NewReader(delivered)).Decode(&got)
			expectError := derr != nil
			var desc sim.ModelDescription
			if !expectError {
				if got.Name == "" || sim.Catalog[got.Name] == nil {
					expectError = true
				} else {
					desc = sim.Catalog[got.Name]().Description()
				}
			}
			isErrorDoc := resp.RunResults.Outputs == nil && resp.RunResults.States == nil
			nonEmptyLog := false
			for _, l := range resp.Log {
				if strings.TrimSpace(l) != "" {
					nonEmptyLog = true
				}
			}
			if expectError {
				o.Checks++
				if !isErrorDoc || !nonEmptyLog {
					o.fail("problem-not-described", "problem-not-described", "delivery %s: an undecodable/unknown-model request must be answered by a document that describes the problem (non-empty Log, no results); got %q", d.what, head64(wr.buf.Bytes(), 300))
					return
				}
				continue
			}
			T, supplied, unequal := firstLen(desc, &got)
			if supplied == 0 || unequal {
				// missing (all) or unequal-length inputs: "one valid JSON document describing the problem"
				o.Checks++
				if !nonEmptyLog || (unequal && !isErrorDoc && !logMentions(resp.Log, "length")) {
					o.fail("unequal-length-not-described", "unequal-lengths-not-described", "delivery %s: inputs of unequal length (or no input at all; decoded request has %s) were not described in the log: %q", d.what, describeInputs(&got), head64(wr.buf.Bytes(), 400))
					return
				}
				if d.what == "complete" {
					o.probe("answered:" + tag)
				}
				continue
			}
			if d.what != "complete" && d.what != "trailing-garbage" && d.what != "complete-stream-kept-open" && d.what != "complete-slow-client" {
				// a byte fault that left a decodable request: robustness is asserted (one
				// document, no escape); equivalence is asserted on the undamaged document
				continue
			}
			// complete, valid request: equivalence with the direct run
			var ref directResult
			var refPanic interface{}
			func() {
				defer func() { refPanic = recover() }()
				ref = directRun(desc, got.Name, &got, T)
			}()
			if refPanic != nil {
				// the direct run cannot even be set up with these values (e.g. initial states
				// cannot be allocated): the runner must describe the problem
				o.Checks++
				if !isErrorDoc || !nonEmptyLog {
					o.fail("problem-not-described", "problem-not-described", "%s: a direct run panics while being set up (%v); the runner must answer with a document that describes the problem, got %q", got.Name, refPanic, head64(wr.buf.Bytes(), 300))
					return
				}
				continue
			}
			if isErrorDoc {
				o.fail("differs-from-direct-run", "no-results/"+got.Name, "%s: valid request answered without results: %q", got.Name, head64(wr.buf.Bytes(), 300))
				return
			}
			if e := compareResults(desc, resp, ref, split); e != nil {
				o.fail("differs-from-direct-run", "differs/"+got.Name, "%s (%s request, split=%v): %v", got.Name, tag, split, e)
				return
			}
			o.Checks += len(ref.out) + len(ref.fin)
			// every defaulted parameter and every missing input is named in the log
			for _, p := range desc.Parameters {
				found := false
				for _, v := range got.Parameters {
					if v.Name == p.Name {
						found = true
					}
				}
				if !found && !logMentions(resp.Log, p.Name) {
					o.fail("default-or-missing-not-logged", "default-not-logged", "%s: parameter %s was defaulted but no log line names it: %v", got.Name, p.Name, resp.Log)
					return
				}
			}
			for _, in := range desc.Inputs {
				found := false
				for _, v := range got.Inputs {
					if v.Name == in {
						found = v.Values != nil
						break
					}
				}
				if !found && !logMentions(resp.Log, in) {
					o.fail("default-or-missing-not-logged", "missing-not-logged", "%s: input %s was missing but no log line names it: %v", got.Name, in, resp.Log)
					return
				}
			}
			for _, v := range ref.out {
				if math.IsNaN(v) {
					o.probe("nan_in_results")
				} else if math.IsInf(v, 0) {
					o.probe("inf_in_results")
				}
			}
			o.probe("answered:" + tag)
		}
	})
	o.Sim = s
	if s.Outcome == "" && o.Class == "" {
		jsonSafeChecks(rc, o)
	}
	switch s.Outcome {
	case "":
	case "crash":
		site := crashSite(s.Crash.Stack)
		o.fail("process-crash", "crash@"+site, "%s request for %s, delivery %s: panic in a cell goroutine (ow-single would die without writing a document): %s at %s\ndelivered bytes: %s", tag, req.Name, cur, s.Crash.Value, site, head64(curData, 500))
	case "deadlock":
		o.fail("never-answers", "never-answers/"+strings.SplitN(cur, "@", 2)[0], "delivery %s of a %s request for %s: the runner never wrote its answer (it is blocked although the complete request has been delivered); blocked: %v", cur, tag, req.Name, s.Blocked)
	default:
		o.fail("no-termination", s.Outcome, "%s; blocked: %v", s.Outcome, s.Blocked)
	}
	return o
}

func logMentions(log []string, what string) bool {
	for _, l := range log {
		if strings.Contains(l, what) {
			return true
		}
	}
	return false
}

func head64(b []byte, n int) []byte {
	if len(b) > n {
		return b[:n]
	}
	return b
}

// compareResults checks nesting and values of the result document against the direct run.
func compareResults(desc sim.ModelDescription, resp *response, ref directResult, split bool) error {
	nOut := len(desc.Outputs)
	if split {
		om, ok := resp.RunResults.Outputs.(map[string]interface{})
		if !ok {
			return fmt.Errorf("split Outputs is not an object: %T", resp.RunResults.Outputs)
		}
		if len(om) != nOut {
			return fmt.Errorf("split Outputs has %d entries, model has %d outputs", len(om), nOut)
		}
		for k, name := range desc.Outputs {
			series, ok := om[name].([]interface{})
			if !ok {
				return fmt.Errorf("output %s is not an array", name)
			}
			if len(series) != ref.T {
				return fmt.Errorf("output %s has %d values, %d timesteps were supplied", name, len(series), ref.T)
			}
			for t, v := range series {
				if e := sameValue(v, ref.out[k*ref.T+t]); e != nil {
					return fmt.Errorf("output %s[%d]: %v", name, t, e)
				}
			}
		}
		sm, ok := resp.RunResults.States.(map[string]interface{})
		if !ok {
			return fmt.Errorf("split States is not an object: %T", resp.RunResults.States)
		}
		for j, name := range desc.States {
			if j >= len(ref.fin) {
				break
			}
			if e := sameValue(sm[name], ref.fin[j]); e != nil {
				return fmt.Errorf("state %s: %v", name, e)
			}
		}
		return nil
	}
	oa, ok := resp.RunResults.Outputs.([]interface{})
	if !ok {
		return fmt.Errorf("Outputs is not an array: %T", resp.RunResults.Outputs)
	}
	if len(oa) != nOut {
		return fmt.Errorf("Outputs has %d rows, model has %d outputs", len(oa), nOut)
	}
	for k := range oa {
		series, ok := oa[k].([]interface{})
		if !ok {
			return fmt.Errorf("Outputs[%d] is not an array (nesting must follow the array's dimensions)", k)
		}
		if len(series) != ref.T {
			return fmt.Errorf("Outputs[%d] has %d values, %d timesteps were supplied", k, len(series), ref.T)
		}
		for t, v := range series {
			if e := sameValue(v, ref.out[k*ref.T+t]); e != nil {
				return fmt.Errorf("Outputs[%d][%d]: %v", k, t, e)
			}
		}
	}
	sa, ok := resp.RunResults.States.([]interface{})
	if !ok {
		return fmt.Errorf("States is not an array: %T", resp.RunResults.States)
	}
	if len(sa) != len(ref.fin) {
		return fmt.Errorf("States has %d values, the state vector has %d", len(sa), len(ref.fin))
	}
	for j, v := range sa {
		if e := sameValue(v, ref.fin[j]); e != nil {
			return fmt.Errorf("States[%d]: %v", j, e)
		}
	}
	return nil
}

func describeInputs(r *request) string {
	var parts []string
	for _, in := range r.Inputs {
		parts = append(parts, fmt.Sprintf("%s:%d", in.Name, len(in.Values)))
	}
	return strings.Join(parts, ",")
}

// engine "jsonconc": several complete, valid requests are answered concurrently (one task per
// request under the seeded scheduler, also in the -race binary).  Every answer must equal the
// direct run of its own request.
func init() { engines["jsonconc"] = engineJSONConc }

func engineJSONConc(rc *RunCtx) *Outcome {
	o := &Outcome{}
	w := rc.W
	n := 2 + w.Choose(3)
	type job struct {
		req   *request
		doc   []byte
		split bool
		out   recordingWriter
		esc   interface{}
	}
	var jobs []*job
	var names []string
	for len(jobs) < n {
		req, tag := drawRequest(w)
		if tag != "complete" {
			continue
		}
		doc, _ := json.Marshal(req)
		jobs = append(jobs, &job{req: req, doc: doc, split: w.Bool(50), out: recordingWriter{failAt: -1}})
		names = append(names, req.Name)
	}
	o.Sample = map[string]interface{}{"concurrent_requests": names}
	s := simrt.Run(rc.T, simrt.Config{}, rc.S, func() {
		done := make(chan int)
		for i := range jobs {
			j := jobs[i]
			simrt.Go("jsonconc:request", func() {
				simrt.Yield("jsonconc:start")
				func() {
					defer func() { j.esc = recover() }()
					sim.RunSingleModelJSON(bytes.NewReader(j.doc), &j.out, j.split)
				}()
				simrt.Yield("jsonconc:done<")
				done <- 1
				simrt.Yield("jsonconc:done>")
			})
		}
		for range jobs {
			simrt.Yield("jsonconc:join<")
			<-done
			simrt.Yield("jsonconc:join>")
		}
	})
	o.Sim = s
	o.Nontrivial = s.Stats.Picks > 0
	switch s.Outcome {
	case "":
	case "crash":
		o.fail("process-crash", "crash@"+crashSite(s.Crash.Stack), "concurrent requests %v: panic in a cell goroutine: %s", names, s.Crash.Value)
		return o
	default:
		o.fail("no-termination", s.Outcome, "%s; blocked: %v", s.Outcome, s.Blocked)
		return o
	}
	for _, j := range jobs {
		if j.esc != nil {
			o.fail("panic-escapes", "concurrent/panic-escapes", "RunSingleModelJSON panicked (%v) while other requests were being answered concurrently (%v)", j.esc, names)
			return o
		}
		resp, _, perr := parseOneDocument(j.out.buf.Bytes())
		if perr != nil {
			o.fail("not-one-document", "concurrent/not-one-document", "%s answered concurrently with %v: %v", j.req.Name, names, perr)
			return o
		}
		desc := sim.Catalog[j.req.Name]().Description()
		T, _, _ := firstLen(desc, j.req)
		var ref directResult
		var refPanic interface{}
		sref := simrt.Run(rc.T, simrt.Config{}, simrt.ReplayTape(nil), func() {
			defer func() { refPanic = recover() }()
			ref = directRun(desc, j.req.Name, j.req, T)
		})
		if refPanic != nil || sref.Outcome != "" {
			continue
		}
		if e := compareResults(desc, resp, ref, j.split); e != nil {
			o.fail("differs-from-direct-run", "concurrent/differs", "%s answered concurrently with %v: %v", j.req.Name, names, e)
			return o
		}
		o.Checks += len(ref.out)
	}
	o.probe("concurrent_requests_answered")
	return o
}

// hugeRequest: a cheap multi-output model with 65536..70000 timesteps.
func hugeRequest(w *simrt.Tape) *request {
	n := 65536 + w.Choose(4000)
	vals := make([]float64, n)
	for i := range vals {
		vals[i] = float64(i%97) / 4
	}
	switch w.Choose(3) {
	case 0:
		return &request{Name: "FixedPartition", Parameters: []reqValue{{"fraction", 0.25}}, Inputs: []reqInput{{"input", vals}}}
	case 1:
		return &request{Name: "EmcDwc", Parameters: []reqValue{{"EMC", 2}, {"DWC", 3}}, Inputs: []reqInput{{"quickflow", vals}, {"baseflow", vals}}}
	}
	return &request{Name: "Sum", Inputs: []reqInput{{"i1", vals}, {"i2", vals}}}
}

// engine "owsingle": the real ow-single program (cmd/ow-single: main -> sim.RunSingleModelJSON on
// os.Stdin/os.Stdout) started as an operating-system process, with the request arriving through a
// pipe, from a regular file, or - the empty request - from the null device.  What the program writes
// to its standard output must be byte for byte what RunSingleModelJSON writes in-process for the same
// bytes, and the process must end with status 0.  Only complete, valid requests and requests that are
// answered with a description (unknown model, no name, nothing at all) are sent: a request whose run
// would crash a cell goroutine is a known finding of the in-process phases.
func init() { engines["owsingle"] = engineOwSingle }

func engineOwSingle(rc *RunCtx) *Outcome {
	o := &Outcome{}
	w := rc.W
	bin := os.Getenv("VERIF_OWSINGLE")
	if bin == "" {
		panic("harness: VERIF_OWSINGLE not set")
	}
	var req *request
	var tag string
	for {
		req, tag = drawRequest(w)
		if tag == "complete" || tag == "unknown-model" || tag == "no-name" {
			break
		}
	}
	doc, err := json.Marshal(req)
	if err != nil {
		panic(err)
	}
	kind := []string{"pipe", "pipe", "file", "file", "null-device"}[w.Choose(5)]
	if kind == "null-device" {
		doc = nil
		tag = "empty"
	}
	o.Sample = map[string]interface{}{"request_kind": tag, "model": req.Name, "stdin": kind, "bytes": len(doc)}
	var want bytes.Buffer
	sim.RunSingleModelJSON(bytes.NewReader(doc), &want, true)
	cmd := exec.Command(bin)
	var got, errOut bytes.Buffer
	cmd.Stdout, cmd.Stderr = &got, &errOut
	switch kind {
	case "pipe":
		cmd.Stdin = bytes.NewReader(doc)
	case "file":
		f, err := os.CreateTemp("", "owsingle-req-*.json")
		if err != nil {
			panic(err)
		}
		defer os.Remove(f.Name())
		f.Write(doc)
		f.Seek(0, 0)
		defer f.Close()
		cmd.Stdin = f
	case "null-device":
		cmd.Stdin = nil // os/exec connects the null device
	}
	runErr := cmd.Run()
	o.Evals++
	o.fault("stdin:" + kind)
	if runErr != nil {
		o.fail("ow-single-failed", "owsingle/exit", "ow-single ended with %v for a %s request arriving through a %s (stderr: %q, stdout: %q)", runErr, tag, kind, head64(errOut.Bytes(), 300), head64(got.Bytes(), 200))
		return o
	}
	if !bytes.Equal(got.Bytes(), want.Bytes()) {
		o.fail("ow-single-differs", "owsingle/differs", "ow-single answered a %s request arriving through a %s with %q, RunSingleModelJSON gives %q", tag, kind, head64(got.Bytes(), 300), head64(want.Bytes(), 300))
		return o
	}
	if _, _, perr := parseOneDocument(got.Bytes()); perr != nil {
		o.fail("not-one-document", "owsingle/not-one-document", "ow-single wrote %q for a %s request (%v)", head64(got.Bytes(), 300), tag, perr)
		return o
	}
	o.Checks += got.Len()
	o.Nontrivial = true
	o.probe("ow_single_process:" + kind)
	return o
}


func swapFirstLetterCase(name string) string {
	b := []byte(name)
	for i, c := range b {
		switch {
		case c >= 'a' && c <= 'z':
			b[i] = c - 32
			return string(b)
		case c >= 'A' && c <= 'Z':
			b[i] = c + 32
			return string(b)
		}
	}
	return name
}


