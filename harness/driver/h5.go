package driver

import (
	"fmt"
	"math"
	"sort"
	"strings"
	"time"
	"unsafe"

	"github.com/anishathalye/porcupine"
	hdf5 "gonum.org/v1/hdf5"
	"verif/simrt"
)

// engine "h5": C08.  Real io.H5Ref<T> code over the fake HDF5 disk.
//   mode 0: sequential histories against a dataset-map model (whole-disk comparison after every
//           operation = exact footprints), all eight element types, all source layouts
//   mode 1: concurrent clients under the seeded scheduler; history checked with porcupine;
//           lock-discipline monitor (overlap + held modes)
//   mode 2: sequential histories with injected disk faults (open/create/read/write errors,
//           torn writes) and the narrowly relaxed oracle

func init() { engines["h5"] = engineH5 }

type mDS struct {
	shape []int
	vals  []float64
	str   []string // string dataset (LoadText)
}

type mFile struct {
	ds     map[string]*mDS
	groups map[string]bool
}

func newMFile() *mFile { return &mFile{ds: map[string]*mDS{}, groups: map[string]bool{}} }

func product(s []int) int {
	p := 1
	for _, v := range s {
		p *= v
	}
	return p
}

func eqInts(a, b []int) bool {
	if len(a) != len(b) {
		return false
	}
	for i := range a {
		if a[i] != b[i] {
			return false
		}
	}
	return true
}

func (f *mFile) addGroupsFor(path string) {
	parts := strings.Split(strings.Trim(path, "/"), "/")
	p := ""
	for _, g := range parts[:len(parts)-1] {
		p += "/" + g
		f.groups[p] = true
	}
}

// selection arithmetic of the reference: indexes start, start+step, ... < min(stop, extent)
func selIndexes(sel []int, extent int) []int {
	var out []int
	if sel == nil {
		for i := 0; i < extent; i++ {
			out = append(out, i)
		}
		return out
	}
	stop := sel[1]
	if stop > extent {
		stop = extent
	}
	for i := sel[0]; i < stop; i += sel[2] {
		out = append(out, i)
	}
	return out
}

func selectFrom(shape []int, vals []float64, sel [][]int) (oshape []int, ovals []float64) {
	rank := len(shape)
	per := make([][]int, rank)
	for d := 0; d < rank; d++ {
		var s []int
		if sel != nil {
			s = sel[d]
		}
		per[d] = selIndexes(s, shape[d])
		oshape = append(oshape, len(per[d]))
	}
	n := product(oshape)
	strides := make([]int, rank)
	acc := 1
	for d := rank - 1; d >= 0; d-- {
		strides[d] = acc
		acc *= shape[d]
	}
	idx := make([]int, rank)
	for k := 0; k < n; k++ {
		off := 0
		for d := 0; d < rank; d++ {
			off += per[d][idx[d]] * strides[d]
		}
		ovals = append(ovals, vals[off])
		for d := rank - 1; d >= 0; d-- {
			idx[d]++
			if idx[d] < len(per[d]) {
				break
			}
			idx[d] = 0
		}
	}
	return
}

// blockOffsets: flat offsets of the block of shape sub at loc inside shape (nil if it does not fit)
func blockOffsets(shape, sub, loc []int) []int {
	rank := len(shape)
	if len(sub) != rank || len(loc) != rank {
		return nil
	}
	for d := 0; d < rank; d++ {
		if loc[d] < 0 || loc[d]+sub[d] > shape[d] {
			return nil
		}
	}
	strides := make([]int, rank)
	acc := 1
	for d := rank - 1; d >= 0; d-- {
		strides[d] = acc
		acc *= shape[d]
	}
	n := product(sub)
	out := make([]int, 0, n)
	idx := make([]int, rank)
	for k := 0; k < n; k++ {
		off := 0
		for d := 0; d < rank; d++ {
			off += (loc[d] + idx[d]) * strides[d]
		}
		out = append(out, off)
		for d := rank - 1; d >= 0; d-- {
			idx[d]++
			if idx[d] < sub[d] {
				break
			}
			idx[d] = 0
		}
	}
	return out
}

var layoutNames = []string{"contiguous", "row-gapped", "column-gapped", "stepped", "reshaped", "c-backed"}

// makeSource builds an array of the given shape and values in one of the in-memory layouts.
func makeSource[T num, A arr[T, A]](k kit[T, A], layout int, shape []int, vals []float64, w *simrt.Tape) A {
	rank := len(shape)
	n := product(shape)
	tv := make([]T, n)
	for i := range tv {
		tv[i] = T(vals[i])
	}
	fill := func(a A) A {
		idx := make([]int, rank)
		for i := 0; i < n; i++ {
			a.Set(idx, tv[i])
			for d := rank - 1; d >= 0; d-- {
				idx[d]++
				if idx[d] < shape[d] {
					break
				}
				idx[d] = 0
			}
		}
		return a
	}
	switch layout {
	case 1, 2, 3: // views of a bigger parent (single-level slices of a root array)
		pdims := make([]int, rank)
		loc := make([]int, rank)
		step := make([]int, rank)
		for d := 0; d < rank; d++ {
			step[d] = 1
			pdims[d] = shape[d]
		}
		switch layout {
		case 1:
			loc[0] = 1
			pdims[0] = shape[0] + 2
		case 2:
			loc[rank-1] = 1
			pdims[rank-1] = shape[rank-1] + 2
		case 3:
			for d := 0; d < rank; d++ {
				step[d] = 1 + w.Choose(3)
				loc[d] = w.Choose(2)
				pdims[d] = loc[d] + shape[d]*step[d] + 1
			}
		}
		for d := range pdims {
			if pdims[d] == 0 {
				pdims[d] = 1 // a zero-extent view of non-empty storage
			}
		}
		parent := k.newGo(pdims)
		pidx := make([]int, rank)
		for i, np := 0, product(pdims); i < np; i++ {
			parent.Set(pidx, T(7))
			for d := rank - 1; d >= 0; d-- {
				pidx[d]++
				if pidx[d] < pdims[d] {
					break
				}
				pidx[d] = 0
			}
		}
		view := parent.Slice(loc, shape, step)
		return fill(view)
	case 4: // reshaped from 1-D
		flat := k.fromSlice(tv, []int{n})
		return flat.MustReshape(shape)
	case 5: // C-backed
		cb := allocC(n*k.cSize, true, false)
		a := k.newC(cb.ptr, shape)
		return fill(a)
	}
	if w != nil && w.Choose(10) >= 7 {
		// a contiguous source over a backing slice that is longer than the array
		pad := 1 + w.Choose(5)
		for i := 0; i < pad; i++ {
			tv = append(tv, T(77))
		}
	}
	return k.fromSlice(tv, shape)
}

func readAll[T num, A arr[T, A]](a A) (shape []int, vals []float64) {
	shape = append([]int(nil), a.Shape()...)
	n := product(shape)
	rank := len(shape)
	idx := make([]int, rank)
	for i := 0; i < n; i++ {
		vals = append(vals, float64(a.Get(idx)))
		for d := rank - 1; d >= 0; d-- {
			idx[d]++
			if idx[d] < shape[d] {
				break
			}
			idx[d] = 0
		}
	}
	return
}

func engineH5(rc *RunCtx) *Outcome {
	o := &Outcome{}
	mode := []int{0, 0, 0, 1, 1, 2}[rc.W.Choose(6)]
	ti := rc.W.Choose(numKits)
	switch ti {
	case 0:
		h5Run(kitFloat64, mode, rc, o)
	case 1:
		h5Run(kitFloat32, mode, rc, o)
	case 2:
		h5Run(kitInt32, mode, rc, o)
	case 3:
		h5Run(kitUint32, mode, rc, o)
	case 4:
		h5Run(kitInt64, mode, rc, o)
	case 5:
		h5Run(kitUint64, mode, rc, o)
	case 6:
		h5Run(kitInt, mode, rc, o)
	case 7:
		h5Run(kitUint, mode, rc, o)
	}
	return o
}

// file names: the usual pair, the same base name in two directories, relative names, one name a
// prefix of the other, a blank in a directory name
var h5FilePairs = [][]string{{"/sim/a.h5", "/sim/b.h5"}, {"/sim/a.h5", "/sim/b.h5"}, {"/one/data.h5", "/two/data.h5"}, {"a.h5", "./b.h5"},
	{"/sim/x.h5", "/sim/x.h5.bak"}, {"/my data/a.h5", "/my data/b.h5"}, {"/sim/run$1.h5", "/sim/run$2.h5"}, {"/sim/${HOME}.h5", "/sim/$HOME.h5"}}

// (the fifth path - sequential histories only - lies in a group whose name differs from an existing
// sibling's only in letter case: HDF5 names are case sensitive)
var h5Paths = []string{"/d0", "/g/d1", "/g/h/d2", "/g/d3", "/G/d1"}

func drawShape(w *simrt.Tape, allowZero bool) []int {
	rank := 1 + w.Choose(3)
	s := make([]int, rank)
	for d := range s {
		s[d] = sizeDraw(w, 6, 19)
		if allowZero && w.Choose(40) == 39 {
			s[d] = 0
		}
	}
	return s
}

func drawSel(w *simrt.Tape, shape []int) [][]int {
	sel := make([][]int, len(shape))
	any := false
	for d, ext := range shape {
		if w.Bool(35) {
			continue
		}
		start := w.Choose(ext + 1)
		stop := start + w.Choose(ext+3)
		step := 1 + w.Choose(3)
		switch w.Choose(12) {
		case 10: // "to the end" sentinels
			stop = math.MaxInt64
		case 11:
			stop = math.MaxInt32
		}
		sel[d] = []int{start, stop, step}
		any = true
	}
	if !any {
		return nil
	}
	return sel
}

// compareDisk: the whole simulated disk must equal the model (exact write footprints).
func compareDisk(files map[string]*mFile, kindName string) error {
	names := hdf5.FileNames()
	sort.Strings(names)
	var mnames []string
	for n := range files {
		mnames = append(mnames, n)
	}
	sort.Strings(mnames)
	if strings.Join(names, ",") != strings.Join(mnames, ",") {
		return fmt.Errorf("files on disk %v, expected %v", names, mnames)
	}
	for _, fn := range mnames {
		ds, groups, _ := hdf5.Snapshot(fn)
		mf := files[fn]
		seen := map[string]bool{}
		for _, d := range ds {
			seen[d.Path] = true
			m := mf.ds[d.Path]
			if m == nil {
				return fmt.Errorf("%s: unexpected dataset %s on disk", fn, d.Path)
			}
			if m.str != nil {
				continue
			}
			if !eqInts(d.Dims, m.shape) {
				return fmt.Errorf("%s:%s has extent %v on disk, expected %v", fn, d.Path, d.Dims, m.shape)
			}
			if d.Kind.String() != kindName {
				return fmt.Errorf("%s:%s has element type %s on disk, expected %s", fn, d.Path, d.Kind, kindName)
			}
			for i := range m.vals {
				if d.Floats[i] != m.vals[i] {
					return fmt.Errorf("%s:%s element %d is %v on disk, expected %v (extent %v)", fn, d.Path, i, d.Floats[i], m.vals[i], m.shape)
				}
			}
		}
		for p := range mf.ds {
			if !seen[p] {
				return fmt.Errorf("%s: dataset %s missing on disk", fn, p)
			}
		}
		gs := map[string]bool{}
		for _, g := range groups {
			gs[g] = true
			if !mf.groups[g] {
				return fmt.Errorf("%s: unexpected group %s on disk", fn, g)
			}
		}
		for g := range mf.groups {
			if !gs[g] {
				return fmt.Errorf("%s: group %s missing on disk", fn, g)
			}
		}
	}
	return nil
}

func monitorViolations(c *hdf5.Control, o *Outcome) {
	for _, v := range c.Violations {
		o.fail("lock-discipline", "lock/"+v.Kind+"/"+v.Op, "%s", v.Msg)
		break
	}
}

func h5Run[T num, A arr[T, A]](k kit[T, A], mode int, rc *RunCtx, o *Outcome) {
	w := rc.W
	ctl := hdf5.Reset()
	ctl.Tape = rc.S
	ctl.Monitor = true
	switch mode {
	case 0:
		o.probe("mode:sequential:" + k.name)
		h5Sequential(k, rc, o, ctl, false)
	case 1:
		o.probe("mode:concurrent")
		h5Concurrent(k, rc, o, ctl)
	case 2:
		o.probe("mode:faulted")
		ctl.Plan = &hdf5.FaultPlan{Pct: 3 + w.Choose(10), Budget: 1 + w.Choose(3)}
		h5Sequential(k, rc, o, ctl, true)
		for _, kind := range ctl.Plan.Kinds {
			o.fault(kind)
		}
	}
	monitorViolations(ctl, o)
	if ctl.MaxOverlap > 1 {
		o.probe("two_tasks_inside_library_simultaneously(readers)")
	}
}

func h5Sequential[T num, A arr[T, A]](k kit[T, A], rc *RunCtx, o *Outcome, ctl *hdf5.Control, faults bool) {
	w := rc.W
	files := map[string]*mFile{}
	fnames := h5FilePairs[w.Choose(len(h5FilePairs))][:1+w.Choose(2)]
	nOps := 6 + w.Choose(25)
	next := 1.0
	uniq := func(n int) []float64 {
		v := make([]float64, n)
		for i := range v {
			v[i] = next
			next++
		}
		if !faults && n > 0 {
			// "boring" data is valid data: a block of zeros (what a new dataset is filled with) or
			// of one repeated value must be transferred like any other.  (Not under injected faults:
			// the narrowed oracle there tells old from new data by their values.)
			switch w.Choose(8) {
			case 6:
				for i := range v {
					v[i] = 0
				}
				o.probe("all_zero_block_written")
			case 7:
				for i := range v {
					v[i] = v[0]
				}
			}
		}
		return v
	}
	var log []string
	bigCreated := false
	var selPool [][][]int
	o.Sample = map[string]interface{}{"mode": map[bool]string{false: "sequential", true: "faulted"}[faults], "element_type": k.name, "operations": nOps}
	// a string dataset for LoadText
	strs := []string{"Sum", "GR4J", "x"}
	textFile := ""
	if w.Bool(30) {
		textFile = fnames[0]
		hdf5.PutStrings(textFile, "/META/models", strs, 8)
		mf := newMFile()
		mf.ds["/META/models"] = &mDS{str: strs}
		mf.groups["/META"] = true
		files[textFile] = mf
	}
	var escaped interface{}
	var curOp string
	s := simrt.Run(rc.T, simrt.Config{}, simrt.ReplayTape(nil), func() {
		defer func() {
			if r := recover(); r != nil {
				escaped = r
				panic(r)
			}
		}()
		for op := 0; op < nOps && o.Class == ""; op++ {
			fn := fnames[w.Choose(len(fnames))]
			path := h5Paths[w.Choose(len(h5Paths))]
			mf := files[fn]
			var md *mDS
			if mf != nil {
				md = mf.ds[path]
			}
			kind := w.Choose(12)
			faultsBefore := 0
			if ctl.Plan != nil {
				faultsBefore = len(ctl.Plan.Kinds)
			}
			hit := func() bool { return ctl.Plan != nil && len(ctl.Plan.Kinds) > faultsBefore }
			// after a faulted operation the disk may hold none, all or a prefix of its effect:
			// check that narrowly and adopt the disk state
			resync := func(footprint map[int]float64, target *mDS, targetPath string) bool {
				for _, f2 := range hdf5.FileNames() {
					if files[f2] == nil {
						files[f2] = newMFile() // a create that failed half-way may leave the file
					}
				}
				for f2, mf2 := range files {
					ds, groups, ok := hdf5.Snapshot(f2)
					if !ok {
						o.fail("fault-damage", "fault/file-lost", "after a faulted %s the file %s disappeared", curOp, f2)
						return false
					}
					for _, g := range groups {
						mf2.groups[g] = true
					}
					for _, d := range ds {
						m := mf2.ds[d.Path]
						if m == nil {
							// a dataset created by the faulted operation: must be the requested one, zero or new values
							if target == nil || d.Path != targetPath || f2 != fn {
								o.fail("fault-damage", "fault/unexpected-dataset", "after a faulted %s dataset %s:%s appeared", curOp, f2, d.Path)
								return false
							}
							mf2.ds[d.Path] = &mDS{shape: d.Dims, vals: append([]float64(nil), d.Floats...)}
							continue
						}
						if m.str != nil {
							continue
						}
						for i := range m.vals {
							if d.Floats[i] == m.vals[i] {
								continue
							}
							nv, inFoot := footprint[i]
							if m == target && inFoot && d.Floats[i] == nv {
								m.vals[i] = nv
								continue
							}
							o.fail("fault-damage", "fault/wrong-data", "after a faulted %s element %d of %s:%s is %v: neither its old value %v nor the value being written", curOp, i, f2, d.Path, d.Floats[i], m.vals[i])
							return false
						}
					}
				}
				return true
			}
			switch {
			case kind == 0: // Create
				shape := drawShape(w, false)
				if md != nil && w.Bool(50) {
					shape = append([]int(nil), md.shape...)
				}
				if md == nil && !faults && !bigCreated && w.Choose(25) == 24 {
					// a dataset of a few megabytes (where chunk layouts and buffers come into play)
					shape = []int{300 + w.Choose(100), 1000 + w.Choose(24)}
					bigCreated = true
					o.probe("dataset_of_more_than_a_megabyte_created")
				}
				curOp = fmt.Sprintf("Create(%s:%s,%v)", fn, path, shape)
				log = append(log, curOp)
				err := k.ref(fn, path, nil).Create(shape, T(0), w.Bool(30))
				if hit() {
					o.probe("operation_hit_by_fault")
					if err == nil && md != nil && !eqInts(md.shape, shape) {
						o.fail("create-semantics", "create/fault", "%s was hit by an injected fault and accepted an existing dataset of extent %v (a different extent must be refused, with or without a transient failure); history %v", curOp, md.shape, log)
						return
					}
					if !resync(nil, &mDS{}, path) {
						return
					}
					continue
				}
				expectErr := md != nil && !eqInts(md.shape, shape)
				if (err != nil) != expectErr {
					o.fail("create-semantics", "create", "%s returned error=%v, expected error=%v (existing extent %v); history %v", curOp, err, expectErr, shapeOf(md), log)
					return
				}
				if md == nil {
					if mf == nil {
						mf = newMFile()
						files[fn] = mf
					}
					mf.ds[path] = &mDS{shape: shape, vals: make([]float64, product(shape))}
					mf.addGroupsFor(path)
				} else if !expectErr {
					o.probe("create_on_existing_same_shape")
				} else {
					o.probe("create_on_existing_other_shape_refused")
				}
			case kind <= 3: // Write whole
				shape := drawShape(w, true)
				if md != nil && w.Bool(70) {
					shape = append([]int(nil), md.shape...)
				}
				vals := uniq(product(shape))
				layout := w.Choose(len(layoutNames))
				if product(shape) == 0 {
					layout = 0
				}
				curOp = fmt.Sprintf("Write(%s:%s,%v,%s)", fn, path, shape, layoutNames[layout])
				log = append(log, curOp)
				src := makeSource(k, layout, shape, vals, w)
				o.probe("source_layout:" + layoutNames[layout])
				if product(shape) == 0 {
					o.probe("zero_size_array")
				}
				err := k.ref(fn, path, nil).Write(src)
				if hit() {
					o.probe("operation_hit_by_fault")
					foot := map[int]float64{}
					if md == nil || eqInts(md.shape, shape) {
						// (a Write of another extent must be refused, fault or no fault: then no element
						// may change)
						for i, v := range vals {
							foot[i] = v
						}
					}
					tgt := md
					if tgt == nil {
						tgt = &mDS{}
					}
					if !resync(foot, tgt, path) {
						return
					}
					continue
				}
				expectErr := md != nil && !eqInts(md.shape, shape)
				if (err != nil) != expectErr {
					o.fail("write-semantics", "write", "%s returned error=%v, expected error=%v (existing extent %v); history %v", curOp, err, expectErr, shapeOf(md), log)
					return
				}
				if !expectErr {
					if mf == nil {
						mf = newMFile()
						files[fn] = mf
					}
					mf.ds[path] = &mDS{shape: shape, vals: vals}
					mf.addGroupsFor(path)
				}
			case kind <= 5: // WriteSlice
				var shape, loc []int
				if md != nil && md.str == nil {
					for _, e := range md.shape {
						l := 0
						if e > 0 {
							l = w.Choose(e)
						}
						n := 1
						if e-l > 1 {
							n = 1 + w.Choose(e-l)
						}
						if w.Choose(15) == 14 {
							n = e - l + 1 // does not fit
						}
						if !faults && w.Choose(40) == 39 {
							n = 0 // an empty block: nothing to transfer
						}
						loc = append(loc, l)
						shape = append(shape, n)
					}
				} else {
					shape = drawShape(w, false)
					loc = make([]int, len(shape))
				}
				vals := uniq(product(shape))
				layout := w.Choose(len(layoutNames))
				curOp = fmt.Sprintf("WriteSlice(%s:%s,block %v at %v,%s)", fn, path, shape, loc, layoutNames[layout])
				log = append(log, curOp)
				src := makeSource(k, layout, shape, vals, w)
				o.probe("source_layout:" + layoutNames[layout])
				// the reference may still carry the selection an earlier Load was made with: writers
				// place the block at loc in the dataset, whatever the selection says
				var wsel [][]int
				if md != nil && md.str == nil && len(md.shape) > 0 && product(md.shape) > 0 && w.Bool(30) {
					wsel = drawSelNoRemainder(w, md.shape)
					o.probe("writeslice_through_a_reference_with_a_selection")
				}
				err := k.ref(fn, path, wsel).WriteSlice(src, loc)
				var offs []int
				if md != nil && md.str == nil {
					offs = blockOffsets(md.shape, shape, loc)
				}
				if hit() {
					o.probe("operation_hit_by_fault")
					foot := map[int]float64{}
					for i, off := range offs {
						foot[off] = vals[i]
					}
					if !resync(foot, md, path) {
						return
					}
					continue
				}
				expectErr := md == nil || md.str != nil || offs == nil
				if (err != nil) != expectErr {
					o.fail("writeslice-semantics", "writeslice", "%s returned error=%v, expected error=%v (dataset extent %v); history %v", curOp, err, expectErr, shapeOf(md), log)
					return
				}
				if !expectErr {
					for i, off := range offs {
						md.vals[off] = vals[i]
					}
					o.probe("writeslice_block_written")
				} else if md != nil {
					o.probe("writeslice_out_of_extent_refused")
				}
			case kind <= 8: // Load
				var sel [][]int
				if md != nil && md.str == nil && kind > 6 {
					sel = drawSel(w, md.shape)
					// callers keep selection objects and use them again (ow-sim uses one generation
					// slice for parameters, states and inputs): re-use an earlier selection of the
					// same rank as the very same object
					if len(selPool) > 0 && w.Bool(35) {
						if cand := selPool[w.Choose(len(selPool))]; len(cand) == len(md.shape) {
							sel = cand
							o.probe("selection_object_reused")
						}
					}
					if sel != nil && len(selPool) < 6 {
						selPool = append(selPool, sel)
					}
				}
				selBefore := fmt.Sprint(sel)
				curOp = fmt.Sprintf("Load(%s:%s,%v)", fn, path, sel)
				log = append(log, curOp)
				got, err := k.ref(fn, path, sel).Load()
				if after := fmt.Sprint(sel); after != selBefore {
					o.fail("selection-argument-modified", "load/selection-modified", "%s changed the caller's selection to %s (the next Load with the same selection addresses another region); history %v", curOp, after, log)
					return
				}
				if hit() {
					o.probe("operation_hit_by_fault")
					if err == nil {
						o.probe("faulted_read_returned_data_without_error(observation)")
					}
					continue
				}
				expectErr := md == nil
				if md != nil && md.str != nil {
					continue // loading a string dataset as numbers: outside the property
				}
				if (err != nil) != expectErr {
					o.fail("load-semantics", "load", "%s returned error=%v, expected error=%v; history %v", curOp, err, expectErr, log)
					return
				}
				if expectErr {
					continue
				}
				es, ev := selectFrom(md.shape, md.vals, sel)
				gs, gv := readAll[T, A](got)
				o.Checks += len(ev) + 1
				steppedRagged := false
				for d, s1 := range sel {
					if s1 != nil && s1[2] > 1 {
						stop := s1[1]
						if stop > md.shape[d] {
							stop = md.shape[d]
						}
						if stop > s1[0] && (stop-s1[0])%s1[2] != 0 {
							steppedRagged = true
						}
					}
				}
				key := "load"
				if steppedRagged {
					key = "load/stepped-selection-with-remainder"
				}
				if !eqInts(gs, es) {
					o.fail("load-selection", key, "%s returned extent %v, the in-memory slice has extent %v (dataset extent %v); history %v", curOp, gs, es, md.shape, log)
					return
				}
				for i := range ev {
					if gv[i] != ev[i] {
						o.fail("load-selection", key, "%s element %d is %v, the in-memory slice has %v (dataset extent %v); history %v", curOp, i, gv[i], ev[i], md.shape, log)
						return
					}
				}
				if sel != nil {
					o.probe("load_with_selection")
					if product(es) == 0 {
						o.probe("empty_selection")
					}
				}
			case kind == 9: // Shape / Exists
				curOp = fmt.Sprintf("Shape+Exists(%s:%s)", fn, path)
				log = append(log, curOp)
				ref := k.ref(fn, path, nil)
				sh, err := ref.Shape()
				ex := ref.Exists()
				gex := k.ref(fn, "/g", nil).Exists()
				if hit() {
					o.probe("operation_hit_by_fault")
					continue
				}
				if (err != nil) != (md == nil) || (md != nil && md.str == nil && !eqInts(sh, md.shape)) {
					o.fail("shape-semantics", "shape", "%s: Shape returned %v, error=%v; expected %v; history %v", curOp, sh, err, shapeOf(md), log)
					return
				}
				if ex != (md != nil) {
					o.fail("exists-semantics", "exists", "%s: Exists returned %v, expected %v; history %v", curOp, ex, md != nil, log)
					return
				}
				if want := mf != nil && mf.groups["/g"]; gex != want {
					o.fail("exists-semantics", "exists", "Exists(%s:/g) returned %v, expected %v; history %v", fn, gex, want, log)
					return
				}
			case kind == 10: // GetDatasets / GetGroups
				grp := []string{"/", "/g", "/g/h"}[w.Choose(3)]
				curOp = fmt.Sprintf("GetDatasets+GetGroups(%s:%s)", fn, grp)
				log = append(log, curOp)
				ref := k.ref(fn, grp, nil)
				dsn, err1 := ref.GetDatasets()
				gn, err2 := ref.GetGroups()
				if hit() {
					o.probe("operation_hit_by_fault")
					continue
				}
				exists := mf != nil && (grp == "/" || mf.groups[grp])
				if (err1 != nil) == exists || (err2 != nil) == exists {
					o.fail("listing-semantics", "listing", "%s: errors %v/%v, group exists=%v; history %v", curOp, err1, err2, exists, log)
					return
				}
				if !exists {
					continue
				}
				var wantD, wantG []string
				prefix := strings.TrimSuffix(grp, "/") + "/"
				for p := range mf.ds {
					if strings.HasPrefix(p, prefix) && !strings.Contains(p[len(prefix):], "/") {
						wantD = append(wantD, p[len(prefix):])
					}
				}
				for p := range mf.groups {
					if strings.HasPrefix(p, prefix) && !strings.Contains(p[len(prefix):], "/") {
						wantG = append(wantG, p[len(prefix):])
					}
				}
				sort.Strings(wantD)
				sort.Strings(wantG)
				sort.Strings(dsn)
				sort.Strings(gn)
				if strings.Join(dsn, ",") != strings.Join(wantD, ",") || strings.Join(gn, ",") != strings.Join(wantG, ",") {
					o.fail("listing-semantics", "listing", "%s returned datasets %v groups %v, expected %v and %v; history %v", curOp, dsn, gn, wantD, wantG, log)
					return
				}
			case kind == 11: // LoadText
				if textFile == "" {
					continue
				}
				curOp = "LoadText(" + textFile + ":/META/models)"
				log = append(log, curOp)
				got, err := k.ref(textFile, "/META/models", nil).LoadText()
				if hit() {
					o.probe("operation_hit_by_fault")
					continue
				}
				if err != nil || strings.Join(got, ",") != strings.Join(strs, ",") {
					o.fail("loadtext-semantics", "loadtext", "LoadText returned %v, %v; expected %v", got, err, strs)
					return
				}
				o.probe("loadtext")
			}
			if o.Class == "" && !hit() {
				if err := compareDisk(files, k.name); err != nil {
					o.fail("disk-differs-from-model", "footprint", "after %s: %v; history %v", curOp, err, log)
					return
				}
			}
			if n := hdf5.OpenHandles(); n != 0 {
				o.fail("handle-leak", "handle-leak", "after %s %d file handle(s) stay open; history %v", curOp, n, log)
				return
			}
			o.Nontrivial = op >= 1
		}
	})
	o.Sim = s
	o.Sample.(map[string]interface{})["history_head"] = head(nil, 0)
	o.Sample.(map[string]interface{})["history"] = headStr(log, 12)
	switch s.Outcome {
	case "":
	case "crash":
		key := "crash@" + crashSite(s.Crash.Stack)
		if faults && ctl.Plan != nil && len(ctl.Plan.Kinds) > 0 {
			// the property is silent about disk errors: a panic after an injected fault is
			// counted as an observation, not reported
			o.probe("panic_after_injected_fault(observation):" + crashSite(s.Crash.Stack))
			break
		}
		o.fail("panic", key, "panic during %s: %s\n%s\nhistory %v", curOp, s.Crash.Value, s.Crash.Stack, log)
	case "deadlock":
		o.fail("lock-not-released", "deadlock", "no operation can proceed after %s (lock still held?); blocked: %v; history %v", curOp, s.Blocked, log)
	default:
		o.fail("no-termination", s.Outcome, "%s; blocked: %v", s.Outcome, s.Blocked)
	}
	_ = escaped
}

func headStr(v []string, n int) []string {
	if len(v) > n {
		return v[:n]
	}
	return v
}

func shapeOf(m *mDS) interface{} {
	if m == nil {
		return "absent"
	}
	return m.shape
}

// ---------------------------------------------------------------- concurrent histories

type h5In struct {
	Op    string // write, writeslice, load, shape
	Path  string
	Shape []int
	Loc   []int
	Sel   [][]int
	Vals  []float64
}

type h5Out struct {
	Err   bool
	Shape []int
	Vals  []float64
}

type h5Event struct {
	Client       int
	Call, Return int64
	In           h5In
	Out          h5Out
}

type h5State struct {
	absent bool
	shape  []int
	vals   []float64
}

func h5PorcupineModel() porcupine.Model {
	return porcupine.Model{
		Partition: func(history []porcupine.Operation) [][]porcupine.Operation {
			by := map[string][]porcupine.Operation{}
			var keys []string
			for _, op := range history {
				p := op.Input.(h5In).Path
				if _, ok := by[p]; !ok {
					keys = append(keys, p)
				}
				by[p] = append(by[p], op)
			}
			sort.Strings(keys)
			var out [][]porcupine.Operation
			for _, k := range keys {
				out = append(out, by[k])
			}
			return out
		},
		Init: func() interface{} { return h5State{} },
		Step: func(state, input, output interface{}) (bool, interface{}) {
			st := state.(h5State)
			in := input.(h5In)
			out := output.(h5Out)
			switch in.Op {
			case "init":
				return true, h5State{shape: in.Shape, vals: in.Vals}
			case "init-absent":
				return true, h5State{absent: true, shape: in.Shape}
			case "write":
				if out.Err {
					return false, st
				}
				return true, h5State{shape: st.shape, vals: in.Vals}
			case "create":
				// Create makes a zero-filled dataset where there is none, accepts an existing one of
				// the same extent as it is, and refuses another extent
				if st.absent {
					if out.Err {
						return false, st
					}
					return true, h5State{shape: in.Shape, vals: make([]float64, product(in.Shape))}
				}
				if eqInts(in.Shape, st.shape) {
					return !out.Err, st
				}
				return out.Err, st
			}
			if st.absent {
				// nothing but a Write can succeed on a dataset that does not exist yet
				return out.Err, st
			}
			switch in.Op {
			case "writeslice":
				offs := blockOffsets(st.shape, in.Shape, in.Loc)
				if offs == nil {
					return out.Err, st
				}
				if out.Err {
					return false, st
				}
				nv := append([]float64(nil), st.vals...)
				for i, off := range offs {
					nv[off] = in.Vals[i]
				}
				return true, h5State{shape: st.shape, vals: nv}
			case "load":
				if out.Err {
					return false, st
				}
				es, ev := selectFrom(st.shape, st.vals, in.Sel)
				if !eqInts(es, out.Shape) {
					return false, st
				}
				for i := range ev {
					if ev[i] != out.Vals[i] {
						return false, st
					}
				}
				return true, st
			case "shape":
				return !out.Err && eqInts(out.Shape, st.shape), st
			}
			return false, st
		},
		Equal: func(a, b interface{}) bool {
			x, y := a.(h5State), b.(h5State)
			if x.absent != y.absent || !eqInts(x.shape, y.shape) || len(x.vals) != len(y.vals) {
				return false
			}
			for i := range x.vals {
				if x.vals[i] != y.vals[i] {
					return false
				}
			}
			return true
		},
		DescribeOperation: func(input, output interface{}) string {
			return fmt.Sprintf("%+v -> %+v", input, output)
		},
	}
}

func h5Concurrent[T num, A arr[T, A]](k kit[T, A], rc *RunCtx, o *Outcome, ctl *hdf5.Control) {
	w := rc.W
	ctl.Latency = w.Bool(50)
	fnames := h5FilePairs[w.Choose(len(h5FilePairs))]
	nDS := 1 + w.Choose(4) // with four, each of the two files can hold two datasets that do not exist yet
	type dsInfo struct {
		path  string
		shape []int
	}
	var dss []dsInfo
	next := 1.0
	uniq := func(n int) []float64 {
		v := make([]float64, n)
		for i := range v {
			v[i] = next
			next++
		}
		return v
	}
	var events []h5Event
	// initial contents, written through the real API before the clients start (sequentially)
	absent := map[string]bool{}
	for i := 0; i < nDS; i++ {
		shape := drawShape(w, false)
		vals := uniq(product(shape))
		if i > 0 && w.Bool(35) {
			// this dataset does not exist when the clients start: the first Write creates it, and
			// until then every other operation on it must fail - it must never be seen half-made
			full := fnames[i%2] + ":" + h5Paths[i]
			dss = append(dss, dsInfo{full, shape})
			absent[full] = true
			events = append(events, h5Event{Client: 0, Call: int64(-2*nDS + 2*i), Return: int64(-2*nDS + 2*i + 1), In: h5In{Op: "init-absent", Path: full, Shape: shape}})
			continue
		}
		// datasets are spread over two files: the library is not thread-safe across files either
		full := fnames[i%2] + ":" + h5Paths[i]
		dss = append(dss, dsInfo{full, shape})
		events = append(events, h5Event{Client: 0, Call: int64(-2*nDS + 2*i), Return: int64(-2*nDS + 2*i + 1), In: h5In{Op: "init", Path: full, Shape: shape, Vals: vals}})
	}
	// a file all of whose datasets are yet to be created may itself not exist when the clients start:
	// the first writers then also create the file, concurrently
	fileMissing := map[string]bool{}
	for _, fn := range fnames {
		all, any := true, false
		for _, d := range dss {
			if strings.HasPrefix(d.path, fn+":") {
				any = true
				if !absent[d.path] {
					all = false
				}
			}
		}
		if any && all && w.Bool(60) {
			fileMissing[fn] = true
		}
	}
	nClients := 2 + w.Choose(3)
	opsPer := 2 + w.Choose(5)
	if nClients*opsPer > 20 {
		opsPer = 20 / nClients
	}
	// pre-draw every client's operations (the workload must not depend on the schedule)
	plans := make([][]h5In, nClients)
	for c := 0; c < nClients; c++ {
		for j := 0; j < opsPer; j++ {
			d := dss[w.Choose(len(dss))]
			switch w.Choose(7) {
			case 6:
				sh := d.shape
				if w.Choose(6) == 5 {
					sh = append(append([]int(nil), d.shape...), 2) // another extent: refused where the dataset exists
				}
				if absent[d.path] && len(sh) != len(d.shape) {
					sh = d.shape // (a dataset that is yet to be created gets the extent every client expects)
				}
				plans[c] = append(plans[c], h5In{Op: "create", Path: d.path, Shape: sh})
			case 0:
				plans[c] = append(plans[c], h5In{Op: "write", Path: d.path, Shape: d.shape, Vals: uniq(product(d.shape))})
			case 1, 2:
				var sub, loc []int
				for _, e := range d.shape {
					l := w.Choose(e)
					loc = append(loc, l)
					sub = append(sub, 1+w.Choose(e-l))
				}
				plans[c] = append(plans[c], h5In{Op: "writeslice", Path: d.path, Shape: sub, Loc: loc, Vals: uniq(product(sub))})
			case 3:
				plans[c] = append(plans[c], h5In{Op: "load", Path: d.path})
			case 4:
				plans[c] = append(plans[c], h5In{Op: "load", Path: d.path, Sel: drawSelNoRemainder(w, d.shape)})
			case 5:
				plans[c] = append(plans[c], h5In{Op: "shape", Path: d.path})
			}
			if w.Choose(5) == 4 {
				// catalogue calls (Exists, GetDatasets, GetGroups): several locked library calls each,
				// so they are not part of the linearizability history, but they run under the lock
				// monitor among the other clients' calls
				plans[c] = append(plans[c], h5In{Op: "catalogue", Path: d.path})
			}
		}
	}
	o.Sample = map[string]interface{}{"mode": "concurrent", "element_type": k.name, "clients": nClients, "operations_per_client": opsPer, "datasets": len(dss), "latency": ctl.Latency}
	s := simrt.Run(rc.T, simrt.Config{}, rc.S, func() {
		for _, e := range events {
			if e.In.Op == "init-absent" {
				// the file exists (the dataset does not) - unless the file is to be created by the
				// clients as well
				if fn := e.In.Path[:strings.Index(e.In.Path, ":")]; !fileMissing[fn] {
					hdf5.MakeGroup(fn, "/")
				}
				continue
			}
			if err := refOf(k, e.In.Path, nil).Write(makeSource(k, 0, e.In.Shape, e.In.Vals, w)); err != nil {
				panic("harness: initial write failed: " + err.Error())
			}
		}
		done := make(chan int)
		for c := 0; c < nClients; c++ {
			c := c
			simrt.Go("h5:client", func() {
				for _, in := range plans[c] {
					simrt.Yield("h5:client-op")
					if in.Op == "catalogue" {
						ref := refOf(k, in.Path, nil)
						if !ref.Exists() && !absent[in.Path] {
							// (a dataset that a concurrent client has yet to create may be reported
							// either way)
							simrt.Record(h5Event{Client: -1, In: in})
						}
						root := refOf(k, in.Path[:strings.Index(in.Path, ":")]+":/", nil)
						root.GetDatasets()
						root.GetGroups()
						continue
					}
					ev := h5Event{Client: c + 1, In: in, Call: simrt.NextSeq()}
					ref := refOf(k, in.Path, in.Sel)
					switch in.Op {
					case "create":
						ev.Out.Err = ref.Create(in.Shape, T(0), false) != nil
					case "write":
						ev.Out.Err = ref.Write(makeSource(k, 0, in.Shape, in.Vals, nil)) != nil
					case "writeslice":
						ev.Out.Err = ref.WriteSlice(makeSource(k, 0, in.Shape, in.Vals, nil), in.Loc) != nil
					case "load":
						a, err := ref.Load()
						ev.Out.Err = err != nil
						if err == nil {
							ev.Out.Shape, ev.Out.Vals = readAll[T, A](a)
						}
					case "shape":
						sh, err := ref.Shape()
						ev.Out.Err, ev.Out.Shape = err != nil, sh
					}
					ev.Return = simrt.NextSeq()
					simrt.Record(ev)
				}
				simrt.Yield("h5:client-done<")
				done <- c
				simrt.Yield("h5:client-done>")
			})
		}
		for c := 0; c < nClients; c++ {
			simrt.Yield("h5:join<")
			<-done
			simrt.Yield("h5:join>")
		}
		// epilogue: when every client has finished, each dataset is read once more, so that the
		// final contents of the disk are part of the history (an acknowledged write that was lost
		// later shows here even if no client happened to read it)
		for _, d := range dss {
			ev := h5Event{Client: 0, In: h5In{Op: "load", Path: d.path}, Call: simrt.NextSeq()}
			a, err := refOf(k, d.path, nil).Load()
			ev.Out.Err = err != nil
			if err == nil {
				ev.Out.Shape, ev.Out.Vals = readAll[T, A](a)
			}
			ev.Return = simrt.NextSeq()
			simrt.Record(ev)
		}
	})
	o.Sim = s
	o.Nontrivial = s.Stats.Picks > 0
	switch s.Outcome {
	case "":
	case "crash":
		o.fail("panic", "crash@"+crashSite(s.Crash.Stack), "panic in a concurrent client: %s\n%s", s.Crash.Value, s.Crash.Stack)
		return
	case "deadlock":
		o.fail("lock-not-released", "deadlock", "clients cannot proceed; blocked: %v", s.Blocked)
		return
	default:
		o.fail("no-termination", s.Outcome, "%s; blocked: %v", s.Outcome, s.Blocked)
		return
	}
	for _, r := range s.Records {
		ev := r.(h5Event)
		if ev.Client < 0 {
			o.fail("exists-semantics", "exists", "Exists(%s) returned false for a dataset that exists, while other clients were using the library", ev.In.Path)
			return
		}
		events = append(events, ev)
	}
	var ops []porcupine.Operation
	for _, e := range events {
		ops = append(ops, porcupine.Operation{ClientId: e.Client, Input: e.In, Call: e.Call, Output: e.Out, Return: e.Return})
	}
	res := porcupine.CheckOperationsTimeout(h5PorcupineModel(), ops, 20*time.Second)
	switch res {
	case porcupine.Illegal:
		var lines []string
		for _, e := range events {
			lines = append(lines, fmt.Sprintf("client %d [%d,%d] %s %s shape=%v loc=%v sel=%v in=%v -> err=%v shape=%v vals=%v", e.Client, e.Call, e.Return, e.In.Op, e.In.Path, e.In.Shape, e.In.Loc, e.In.Sel, e.In.Vals, e.Out.Err, e.Out.Shape, e.Out.Vals))
		}
		o.fail("not-linearizable", "linearizability", "the concurrent history is not linearizable against the dataset-map model:\n%s", strings.Join(lines, "\n"))
	case porcupine.Unknown:
		o.probe("porcupine_unknown(timed out, not reported)")
	default:
		o.probe("porcupine_ok")
	}
	o.Checks += len(ops)
	if s.Stats.LockWaits > 0 {
		o.probe("client_waited_for_lock")
	}
	if len(absent) > 0 {
		o.probe("dataset_created_by_a_concurrent_client")
	}
	if len(fileMissing) > 0 {
		o.probe("file_created_by_concurrent_clients")
	}
}

// drawSelNoRemainder draws selections whose stepped ranges divide evenly, so that the concurrent
// histories do not depend on the (separately keyed) stepped-selection-with-remainder case.
func drawSelNoRemainder(w *simrt.Tape, shape []int) [][]int {
	sel := make([][]int, len(shape))
	for d, ext := range shape {
		if w.Bool(35) {
			continue
		}
		step := 1 + w.Choose(2)
		start := w.Choose(ext)
		n := 1 + w.Choose((ext-start+step-1)/step)
		sel[d] = []int{start, start + n*step, step}
		if start+n*step > ext {
			sel[d][1] = start + (n-1)*step + 1
			if (sel[d][1]-start)%step != 0 {
				sel[d][2] = 1
				sel[d][1] = start + 1
			}
		}
	}
	return sel
}

var _ = unsafe.Pointer(nil)

// refOf resolves "file:dataset".
func refOf[T num, A arr[T, A]](k kit[T, A], full string, sel [][]int) h5ref[T, A] {
	i := strings.Index(full, ":")
	return k.ref(full[:i], full[i+1:], sel)
}
