package driver

import (
	"fmt"
	"sort"

	"github.com/flowmatters/openwater-core/data"
	owio "github.com/flowmatters/openwater-core/io"
	"github.com/flowmatters/openwater-core/sim"
	hdf5 "gonum.org/v1/hdf5"
	"verif/domains"
	"verif/simrt"
)

// engine "split": C06, hot-start continuity as crash/restart enumeration.
//
// A Run call is a process lifetime; the state array is the only durable medium; a crash point
// t ends the process after timestep t; restart = brand-new model object, parameters applied
// again, states read back from the medium, inputs [t, ...).  For every sampled case the engine
// enumerates EVERY single crash point, the all-1-step segmentation and sampled multi-crash
// schedules, and compares the concatenated outputs and the final states with the
// uninterrupted run.

func init() { engines["split"] = engineSplit }

var statefulNames []string

func stateful() []string {
	if statefulNames == nil {
		for _, n := range catalog() {
			if len(sim.Catalog[n]().Description().States) > 0 {
				statefulNames = append(statefulNames, n)
			}
		}
		sort.Strings(statefulNames)
	}
	return statefulNames
}

func paramIndex(desc sim.ModelDescription, name string) int {
	for i, p := range desc.Parameters {
		if p.Name == name {
			return i
		}
	}
	return -1
}

// subDomain partitions a model's parameter space so that a known finding covers only the
// sub-domain in which it fails; the complement stays strictly asserted.
func subDomain(w *simrt.Tape, name string, desc sim.ModelDescription, col []float64) (string, func([][]float64)) {
	inputIndex := func(n string) int {
		for i, x := range desc.Inputs {
			if x == n {
				return i
			}
		}
		panic("harness: no input " + n)
	}
	switch name {
	case "InstreamDissolvedNutrientDecay":
		// the decay branch averages the reach volume with the previous step's volume
		if col[paramIndex(desc, "doDecay")] < 0.5 {
			return "decay-disabled", nil
		}
		if w.Bool(35) {
			k := inputIndex("reachVolume")
			return "decay-constant-reach-volume", func(in [][]float64) {
				for t := range in[k] {
					in[k][t] = in[k][0]
				}
			}
		}
		return "decay-varying-reach-volume", nil
	case "Sacramento":
		// with uh2..uh5 = 0 the unit hydrograph has no memory
		if w.Bool(35) {
			for _, p := range []string{"uh2", "uh3", "uh4", "uh5"} {
				col[paramIndex(desc, p)] = 0
			}
			return "uh-without-memory", nil
		}
		return "uh-with-memory", nil
	}
	return "all", nil
}

const (
	mediumGo = iota
	mediumC
	mediumH5
	numMedia
)

var mediumNames = []string{"go-array", "c-buffer", "hdf5-roundtrip"}

// carry moves a state row through the chosen durable medium and returns the array the next
// process lifetime starts from.
func carry(medium int, row []float64, n, width int, seq int) (data.ND2Float64, error) {
	if len(row) == 0 {
		// a model without carried values (Lag with zero lag): nothing to persist
		return mk2(false, n, 0, nil), nil
	}
	switch medium {
	case mediumC:
		return mk2(true, n, width, row), nil
	case mediumH5:
		fn := "/sim/states.h5"
		ref := owio.H5RefFloat64{Filename: fn, Dataset: fmt.Sprintf("/MODELS/m/states%d", seq)}
		if err := ref.Write(mk2(false, n, width, row)); err != nil {
			return nil, err
		}
		back, err := ref.Load()
		if err != nil {
			return nil, err
		}
		return back.(data.ND2Float64), nil
	}
	return mk2(false, n, width, row), nil
}

// runSegments executes the period in consecutive process lifetimes cut at the given points, for
// all cells of the case in one vectorised Run per segment (N x width state matrix carried through
// the medium).
func runSegments(name string, desc sim.ModelDescription, cols [][]float64, maxDim int, init []float64, width int, inputs [][][]float64, T int, cuts []int, media []int) (out [][]float64, fin []float64, err error) {
	nOut := len(desc.Outputs)
	N := len(cols)
	out = make([][]float64, N*nOut)
	state := cloneF(init)
	bounds := append(append([]int{0}, cuts...), T)
	for s := 0; s+1 < len(bounds); s++ {
		a, b := bounds[s], bounds[s+1]
		m := setupModel(name, paramMatrix(false, cols)) // brand-new object, parameters applied again
		medium := mediumGo
		if s > 0 && s-1 < len(media) {
			medium = media[s-1]
		}
		st, e := carry(medium, state, N, width, s)
		if e != nil {
			return nil, nil, e
		}
		nIn := len(desc.Inputs)
		iv := make([]float64, N*nIn*(b-a))
		for c := 0; c < N; c++ {
			for k := 0; k < nIn; k++ {
				copy(iv[(c*nIn+k)*(b-a):], inputs[c][k][a:b])
			}
		}
		in := mk3(false, N, nIn, b-a, iv)
		o := mk3(false, N, nOut, b-a, nil)
		m.Run(in, st, o)
		fo := flat3(o)
		for c := 0; c < N; c++ {
			for k := 0; k < nOut; k++ {
				out[c*nOut+k] = append(out[c*nOut+k], fo[(c*nOut+k)*(b-a):(c*nOut+k+1)*(b-a)]...)
			}
		}
		state = flat2(st)
	}
	return out, state, nil
}

func tolFor(model string) float64 {
	if model == "StorageRouting" {
		// the property grants the iteratively solved storage routing its solver's own
		// mass-balance tolerance
		return 1e-3
	}
	return 1e-9
}

func engineSplit(rc *RunCtx) *Outcome {
	o := &Outcome{}
	w := rc.W
	domains.WholeSpecRange = true
	defer func() { domains.WholeSpecRange = false }()
	names := stateful()
	name := names[w.Choose(len(names))]
	desc := sim.Catalog[name]().Description()
	maxT := 32
	T := 1 + sizeDraw(w, maxT-1, 90)
	long := w.Choose(250) == 249
	if long {
		// a very long series (counters, budgets and accumulated drift only show after thousands of
		// steps); only a few crash schedules are run on it
		T = 1500 + w.Choose(3000)
	}
	N := 1
	if w.Bool(35) {
		N = 2 + w.Choose(2)
	}
	cols, maxDim := drawColumnsMixed(w, name, N)
	col := cols[0]
	sub, fixInputs := subDomain(w, name, desc, col)
	for c := 1; c < N; c++ {
		// all cells of a case stay in one sub-domain (a known finding covers exactly one)
		s2, _ := subDomainForce(name, desc, cols[c], sub)
		_ = s2
	}
	inputsAll := make([][][]float64, N)
	for c := 0; c < N; c++ {
		inputsAll[c] = domains.GenInputs(w, name, cols[c], maxDim, T)
		if fixInputs != nil {
			fixInputs(inputsAll[c])
		}
	}
	inputs := inputsAll[0]
	_ = inputs
	warm := w.Bool(50)
	nMulti := 4
	if rc.Tier == "thorough" {
		nMulti = 12
	}
	// crash schedules: every single crash point, the 1-step segmentation, sampled multi-crash
	var schedules [][]int
	if long {
		for k := 0; k < 3; k++ {
			schedules = append(schedules, []int{1 + rc.S.Choose(T-1)})
		}
	} else {
		for t := 1; t < T; t++ {
			schedules = append(schedules, []int{t})
		}
		all := make([]int, 0, T-1)
		for t := 1; t < T; t++ {
			all = append(all, t)
		}
		if T > 2 {
			schedules = append(schedules, all)
		}
	}
	for k := 0; k < nMulti && T > 3; k++ {
		n := 2 + rc.S.Choose(4)
		set := map[int]bool{}
		for j := 0; j < n; j++ {
			set[1+rc.S.Choose(T-1)] = true
		}
		var cuts []int
		for t := range set {
			cuts = append(cuts, t)
		}
		sort.Ints(cuts)
		if len(cuts) >= 2 {
			schedules = append(schedules, cuts)
		}
	}
	o.Sample = map[string]interface{}{"model": name, "cells": N, "sub_domain": sub, "timesteps": T, "warm_states": warm, "crash_schedules": len(schedules),
		"parameters": jfs(col), "example_schedule": schedules[len(schedules)-1]}
	tol := tolFor(name)
	key := name + "/" + sub

	hdf5.Reset()
	s := simrt.Run(rc.T, simrt.Config{}, simrt.ReplayTape(nil), func() {
		// the model's own initial states for all cells (the state array is sized from cell 0, which
		// holds the widest state vector; narrower rows are zero padded)
		ist := setupModel(name, paramMatrix(false, cols)).InitialiseStates(N)
		width := ist.Len(1)
		init := flat2(ist)
		if warm {
			wt := 1 + w.Choose(8)
			wIn := make([][][]float64, N)
			for c := 0; c < N; c++ {
				wIn[c] = domains.GenInputs(w, name, cols[c], maxDim, wt)
			}
			_, init, _ = runSegments(name, desc, cols, maxDim, init, width, wIn, wt, nil, nil)
		}
		uOut, uFin, _ := runSegments(name, desc, cols, maxDim, init, width, inputsAll, T, nil, nil)
		nOut := len(desc.Outputs)
		if N > 1 {
			o.probe("multi_cell_case")
			w0 := len(initialStateRow(name, desc, cols[0], maxDim))
			for c := 1; c < N; c++ {
				if len(initialStateRow(name, desc, cols[c], maxDim)) != w0 {
					o.probe("cells_with_different_state_widths(zero_padded_rows)")
					break
				}
			}
		}
		for si, cuts := range schedules {
			media := make([]int, len(cuts))
			for i := range media {
				media[i] = rc.S.Choose(numMedia)
				o.fault("crash+restart via " + mediumNames[media[i]])
			}
			out, fin, err := runSegments(name, desc, cols, maxDim, init, width, inputsAll, T, cuts, media)
			o.Evals++
			h := uint64(si)
			for _, c := range cuts {
				h = fnv(h, uint64(c))
			}
			for _, m := range media {
				h = fnv(h, uint64(m+7))
			}
			o.SubHashes = append(o.SubHashes, h)
			if err != nil {
				o.fail("medium-error", key+"/medium", "%s: carrying states through the durable medium failed: %v", name, err)
				return
			}
			for ck := 0; ck < N*nOut; ck++ {
				for t := 0; t < T; t++ {
					o.Checks++
					if g, e := out[ck][t], uOut[ck][t]; !closeRel(g, e, tol) {
						o.fail("split-output-differs", key, "%s [%s]: cell %d of %d output %s[%d] = %v when the period is run in segments cut at %v, %v in the uninterrupted run (T=%d, first difference)",
							name, sub, ck/nOut, N, desc.Outputs[ck%nOut], t, g, cuts, e, T)
						return
					}
				}
			}
			if len(fin) != len(uFin) {
				o.fail("split-state-differs", key, "%s [%s]: final state vector has %d entries after segments cut at %v, %d uninterrupted", name, sub, len(fin), cuts, len(uFin))
				return
			}
			for j := range fin {
				o.Checks++
				if !closeRel(fin[j], uFin[j], tol) {
					o.fail("split-state-differs", key, "%s [%s]: final state[%d] = %v after segments cut at %v, %v in the uninterrupted run (T=%d)", name, sub, j, fin[j], cuts, uFin[j], T)
					return
				}
			}
		}
	})
	o.Sim = s
	switch s.Outcome {
	case "":
	case "crash":
		o.fail("process-crash", key+"/crash", "%s [%s]: panic at %s: %s\n%s", name, sub, s.Crash.Site, s.Crash.Value, s.Crash.Stack)
	default:
		o.fail("no-termination", key+"/"+s.Outcome, "%s: %s; blocked: %v", name, s.Outcome, s.Blocked)
	}
	o.probe("model:" + name)
	if long {
		o.probe("very_long_series(1500-4500_steps)")
	}
	if warm {
		o.probe("warm_start_states")
	}
	return o
}

// subDomainForce puts a further cell's parameter column into the given sub-domain.
func subDomainForce(name string, desc sim.ModelDescription, col []float64, sub string) (string, bool) {
	switch name {
	case "Sacramento":
		if sub == "uh-without-memory" {
			for _, p := range []string{"uh2", "uh3", "uh4", "uh5"} {
				col[paramIndex(desc, p)] = 0
			}
		} else if col[paramIndex(desc, "uh2")]+col[paramIndex(desc, "uh3")]+col[paramIndex(desc, "uh4")]+col[paramIndex(desc, "uh5")] == 0 {
			col[paramIndex(desc, "uh2")] = 0.1
		}
	case "InstreamDissolvedNutrientDecay":
		if sub == "decay-disabled" {
			col[paramIndex(desc, "doDecay")] = 0
		} else {
			col[paramIndex(desc, "doDecay")] = 1
		}
	}
	return sub, true
}

// drawColumnsMixed draws one parameter column per cell; for models with a variable-length state
// vector the cells may differ in width, with the widest in cell 0 (what InitialiseStates and a
// rectangular state dataset support).
func drawColumnsMixed(w *simrt.Tape, name string, n int) (cols [][]float64, maxDim int) {
	if domains.IsDimensioned(name) {
		maxDim = 2 + w.Choose(4)
	}
	for j := 0; j < n; j++ {
		force := 0
		if j == 0 && maxDim > 0 {
			force = maxDim
		}
		cols = append(cols, domains.GenParams(w, name, maxDim, force))
	}
	// widest state vector first
	best := 0
	for j := range cols {
		if len(initialStateRow(name, sim.Catalog[name]().Description(), cols[j], maxDim)) > len(initialStateRow(name, sim.Catalog[name]().Description(), cols[best], maxDim)) {
			best = j
		}
	}
	if best != 0 {
		// keep the full-table column first for dimensioned models (none of them has variable states)
		cols[0], cols[best] = cols[best], cols[0]
	}
	return
}
