package driver

import (
	"fmt"
	"sort"

	"github.com/flowmatters/openwater-core/data"
	owio "github.com/flowmatters/openwater-core/io"
	"github.com/flowmatters/openwater-core/sim"
	hdf5 "gonum.org/v1/hdf5"
	"verif/domains"
	"verif/simrt"
)

// engine "split": C06, hot-start continuity as crash/restart enumeration.
//
// A Run call is a process lifetime; the state array is the only durable medium; a crash point
// t ends the process after timestep t; restart = brand-new model object, parameters applied
// again, states read back from the medium, inputs [t, ...).  For every sampled case the engine
// enumerates EVERY single crash point, the all-1-step segmentation and sampled multi-crash
// schedules, and compares the concatenated outputs and the final states with the
// uninterrupted run.

func init() { engines["split"] = engineSplit }

var statefulNames []string

func stateful() []string {
	if statefulNames == nil {
		for _, n := range catalog() {
			if len(sim.Catalog[n]().Description().States) > 0 {
				statefulNames = append(statefulNames, n)
			}
		}
		sort.Strings(statefulNames)
	}
	return statefulNames
}

func paramIndex(desc sim.ModelDescription, name string) int {
	for i, p := range desc.Parameters {
		if p.Name == name {
			return i
		}
	}
	return -1
}

// subDomain partitions a model's parameter space so that a known finding covers only the
// sub-domain in which it fails; the complement stays strictly asserted.
func subDomain(w *simrt.Tape, name string, desc sim.ModelDescription, col []float64) (string, func([][]float64)) {
	inputIndex := func(n string) int {
		for i, x := range desc.Inputs {
			if x == n {
				return i
			}
		}
		panic("harness: no input " + n)
	}
	switch name {
	case "InstreamDissolvedNutrientDecay":
		// the decay branch averages the reach volume with the previous step's volume
		if col[paramIndex(desc, "doDecay")] < 0.5 {
			return "decay-disabled", nil
		}
		if w.Bool(35) {
			k := inputIndex("reachVolume")
			return "decay-constant-reach-volume", func(in [][]float64) {
				for t := range in[k] {
					in[k][t] = in[k][0]
				}
			}
		}
		return "decay-varying-reach-volume", nil
	case "Sacramento":
		// with uh2..uh5 = 0 the unit hydrograph has no memory
		if w.Bool(35) {
			for _, p := range []string{"uh2", "uh3", "uh4", "uh5"} {
				col[paramIndex(desc, p)] = 0
			}
			return "uh-without-memory", nil
		}
		return "uh-with-memory", nil
	}
	return "all", nil
}

const (
	mediumGo = iota
	mediumC
	mediumH5
	numMedia
)

var mediumNames = []string{"go-array", "c-buffer", "hdf5-roundtrip"}

// carry moves a state row through the chosen durable medium and returns the array the next
// process lifetime starts from.
func carry(medium int, row []float64, seq int) (data.ND2Float64, error) {
	if len(row) == 0 {
		// a model without carried values (Lag with zero lag): nothing to persist
		return mk2(false, 1, 0, nil), nil
	}
	switch medium {
	case mediumC:
		return mk2(true, 1, len(row), row), nil
	case mediumH5:
		fn := "/sim/states.h5"
		ref := owio.H5RefFloat64{Filename: fn, Dataset: fmt.Sprintf("/MODELS/m/states%d", seq)}
		if err := ref.Write(mk2(false, 1, len(row), row)); err != nil {
			return nil, err
		}
		back, err := ref.Load()
		if err != nil {
			return nil, err
		}
		return back.(data.ND2Float64), nil
	}
	return mk2(false, 1, len(row), row), nil
}

// runSegments executes the period in consecutive process lifetimes cut at the given points.
func runSegments(name string, desc sim.ModelDescription, col []float64, maxDim int, init []float64, inputs [][]float64, T int, cuts []int, media []int) (out [][]float64, fin []float64, err error) {
	nOut := len(desc.Outputs)
	out = make([][]float64, nOut)
	state := cloneF(init)
	bounds := append(append([]int{0}, cuts...), T)
	for s := 0; s+1 < len(bounds); s++ {
		a, b := bounds[s], bounds[s+1]
		m := oneCellModel(name, desc, col, maxDim) // brand-new object, parameters applied again
		medium := mediumGo
		if s > 0 && s-1 < len(media) {
			medium = media[s-1]
		}
		st, e := carry(medium, state, s)
		if e != nil {
			return nil, nil, e
		}
		nIn := len(desc.Inputs)
		iv := make([]float64, nIn*(b-a))
		for k := 0; k < nIn; k++ {
			copy(iv[k*(b-a):(k+1)*(b-a)], inputs[k][a:b])
		}
		in := mk3(false, 1, nIn, b-a, iv)
		o := mk3(false, 1, nOut, b-a, nil)
		m.Run(in, st, o)
		fo := flat3(o)
		for k := 0; k < nOut; k++ {
			out[k] = append(out[k], fo[k*(b-a):(k+1)*(b-a)]...)
		}
		state = flat2(st)
	}
	return out, state, nil
}

func tolFor(model string) float64 {
	if model == "StorageRouting" {
		// the property grants the iteratively solved storage routing its solver's own
		// mass-balance tolerance
		return 1e-3
	}
	return 1e-9
}

func engineSplit(rc *RunCtx) *Outcome {
	o := &Outcome{}
	w := rc.W
	names := stateful()
	name := names[w.Choose(len(names))]
	desc := sim.Catalog[name]().Description()
	maxT := 32
	T := 1 + sizeDraw(w, maxT-1, 90)
	cols, maxDim := drawColumns(w, name, 1)
	col := cols[0]
	sub, fixInputs := subDomain(w, name, desc, col)
	inputs := domains.GenInputs(w, name, col, maxDim, T)
	if fixInputs != nil {
		fixInputs(inputs)
	}
	warm := w.Bool(50)
	nMulti := 4
	if rc.Tier == "thorough" {
		nMulti = 12
	}
	// crash schedules: every single crash point, the 1-step segmentation, sampled multi-crash
	var schedules [][]int
	for t := 1; t < T; t++ {
		schedules = append(schedules, []int{t})
	}
	all := make([]int, 0, T-1)
	for t := 1; t < T; t++ {
		all = append(all, t)
	}
	if T > 2 {
		schedules = append(schedules, all)
	}
	for k := 0; k < nMulti && T > 3; k++ {
		n := 2 + rc.S.Choose(4)
		set := map[int]bool{}
		for j := 0; j < n; j++ {
			set[1+rc.S.Choose(T-1)] = true
		}
		var cuts []int
		for t := range set {
			cuts = append(cuts, t)
		}
		sort.Ints(cuts)
		if len(cuts) >= 2 {
			schedules = append(schedules, cuts)
		}
	}
	o.Sample = map[string]interface{}{"model": name, "sub_domain": sub, "timesteps": T, "warm_states": warm, "crash_schedules": len(schedules),
		"parameters": jfs(col), "example_schedule": schedules[len(schedules)-1]}
	tol := tolFor(name)
	key := name + "/" + sub

	hdf5.Reset()
	s := simrt.Run(rc.T, simrt.Config{}, simrt.ReplayTape(nil), func() {
		init := flat2(oneCellModel(name, desc, col, maxDim).InitialiseStates(1))
		if warm {
			wt := 1 + w.Choose(8)
			_, init = refRunRaw(name, desc, col, maxDim, init, domains.GenInputs(w, name, col, maxDim, wt), wt)
		}
		uOutFlat, uFin := refRunRaw(name, desc, col, maxDim, init, inputs, T)
		nOut := len(desc.Outputs)
		for si, cuts := range schedules {
			media := make([]int, len(cuts))
			for i := range media {
				media[i] = rc.S.Choose(numMedia)
				o.fault("crash+restart via " + mediumNames[media[i]])
			}
			out, fin, err := runSegments(name, desc, col, maxDim, init, inputs, T, cuts, media)
			o.Evals++
			h := uint64(si)
			for _, c := range cuts {
				h = fnv(h, uint64(c))
			}
			for _, m := range media {
				h = fnv(h, uint64(m+7))
			}
			o.SubHashes = append(o.SubHashes, h)
			if err != nil {
				o.fail("medium-error", key+"/medium", "%s: carrying states through the durable medium failed: %v", name, err)
				return
			}
			for k := 0; k < nOut; k++ {
				for t := 0; t < T; t++ {
					o.Checks++
					if g, e := out[k][t], uOutFlat[k*T+t]; !closeRel(g, e, tol) {
						o.fail("split-output-differs", key, "%s [%s]: output %s[%d] = %v when the period is run in segments cut at %v, %v in the uninterrupted run (T=%d, first difference)",
							name, sub, desc.Outputs[k], t, g, cuts, e, T)
						return
					}
				}
			}
			if len(fin) != len(uFin) {
				o.fail("split-state-differs", key, "%s [%s]: final state vector has %d entries after segments cut at %v, %d uninterrupted", name, sub, len(fin), cuts, len(uFin))
				return
			}
			for j := range fin {
				o.Checks++
				if !closeRel(fin[j], uFin[j], tol) {
					o.fail("split-state-differs", key, "%s [%s]: final state[%d] = %v after segments cut at %v, %v in the uninterrupted run (T=%d)", name, sub, j, fin[j], cuts, uFin[j], T)
					return
				}
			}
		}
	})
	o.Sim = s
	switch s.Outcome {
	case "":
	case "crash":
		o.fail("process-crash", key+"/crash", "%s [%s]: panic at %s: %s\n%s", name, sub, s.Crash.Site, s.Crash.Value, s.Crash.Stack)
	default:
		o.fail("no-termination", key+"/"+s.Outcome, "%s: %s; blocked: %v", name, s.Outcome, s.Blocked)
	}
	o.probe("model:" + name)
	if warm {
		o.probe("warm_start_states")
	}
	return o
}
