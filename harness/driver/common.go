// Package driver holds the simulation engines (one per property family), their reference
// models and the worker loop.  It is compiled as a test binary because testing/synctest needs a
// *testing.T; the orchestrator (/verif/ctl) runs it as worker processes.
package driver

import (
	"encoding/json"
	"fmt"
	"math"
	"os"
	"sort"
	"strconv"
	"testing"

	"verif/simrt"
)

// RunCtx identifies one simulated run: everything it does derives from the two tapes.
type RunCtx struct {
	Prop   string
	Engine string
	Seed   uint64 // run seed (derived from VERIF_SEED, property and index)
	Index  int
	W      *simrt.Tape // workload choices
	S      *simrt.Tape // schedule and fault choices
	T      *testing.T
	Tier   string
	Replay bool
}

// Outcome of one run.
type Outcome struct {
	Class      string                 `json:"class"` // "" = property held
	Msg        string                 `json:"message,omitempty"`
	Key        string                 `json:"key,omitempty"` // known-findings key
	Detail     map[string]interface{} `json:"detail,omitempty"`
	Sample     interface{}            `json:"sample,omitempty"`
	Nontrivial bool                   `json:"nontrivial"`
	Probes     map[string]int         `json:"-"`
	Faults     map[string]int         `json:"-"`
	Sim        *simrt.Sim             `json:"-"`
	Checks     int                    `json:"-"` // number of individual comparisons made
	Extra      []Finding              `json:"-"` // further violations of the same run (other keys)
	Evals      int                    `json:"-"` // evaluations inside this run (0 = 1)
	SubHashes  []uint64               `json:"-"` // one hash per non-trivial evaluation (when Evals>1)
}

type Finding struct {
	Class string
	Key   string
	Msg   string
}

func (o *Outcome) probe(name string) {
	if o.Probes == nil {
		o.Probes = map[string]int{}
	}
	o.Probes[name]++
}

func (o *Outcome) fault(name string) {
	if o.Faults == nil {
		o.Faults = map[string]int{}
	}
	o.Faults[name]++
}

// fail records a violation; the first one of a run becomes the run's class, later ones with a
// different key are kept as extras so that a known finding cannot hide a new one.
func (o *Outcome) fail(class, key, format string, a ...interface{}) {
	msg := fmt.Sprintf(format, a...)
	if o.Class == "" {
		o.Class, o.Key, o.Msg = class, key, msg
		return
	}
	if key != o.Key || class != o.Class {
		for _, e := range o.Extra {
			if e.Key == key && e.Class == class {
				return
			}
		}
		if len(o.Extra) < 16 {
			o.Extra = append(o.Extra, Finding{class, key, msg})
		}
	}
}

type Engine func(rc *RunCtx) *Outcome

var engines = map[string]Engine{}

// ---- float helpers ----

func bitsEq(a, b float64) bool { return math.Float64bits(a) == math.Float64bits(b) }

func bitsEqSlice(a, b []float64) int {
	if len(a) != len(b) {
		return 0
	}
	for i := range a {
		if !bitsEq(a[i], b[i]) {
			return i
		}
	}
	return -1
}

func closeRel(a, b, tol float64) bool {
	if bitsEq(a, b) {
		return true
	}
	if math.IsNaN(a) || math.IsNaN(b) {
		return math.IsNaN(a) && math.IsNaN(b)
	}
	if math.IsInf(a, 0) || math.IsInf(b, 0) {
		return a == b
	}
	m := math.Max(1, math.Max(math.Abs(a), math.Abs(b)))
	return math.Abs(a-b) <= tol*m
}

// sizeDraw returns a size in [1,usual]; in about 6% of the draws it returns a size in
// (usual, big] instead, so that nothing depends silently on the usual bounds (swarm style).
func sizeDraw(w interface{ Choose(int) int }, usual, big int) int {
	v := 1 + w.Choose(usual)
	if big > usual && w.Choose(16) == 15 {
		v = usual + 1 + w.Choose(big-usual)
	}
	return v
}

func cloneF(a []float64) []float64 { return append([]float64(nil), a...) }

// jsonFloat makes non-finite values printable in samples
func jf(v float64) interface{} {
	if math.IsNaN(v) || math.IsInf(v, 0) {
		return strconv.FormatFloat(v, 'g', -1, 64)
	}
	return v
}

func jfs(v []float64) []interface{} {
	out := make([]interface{}, len(v))
	for i := range v {
		out[i] = jf(v[i])
	}
	return out
}

func sortedKeys(m map[string]int) []string {
	ks := make([]string, 0, len(m))
	for k := range m {
		ks = append(ks, k)
	}
	sort.Strings(ks)
	return ks
}

func envInt(name string, def int) int {
	if v := os.Getenv(name); v != "" {
		if n, err := strconv.Atoi(v); err == nil {
			return n
		}
	}
	return def
}

func envU64(name string, def uint64) uint64 {
	if v := os.Getenv(name); v != "" {
		if n, err := strconv.ParseUint(v, 10, 64); err == nil {
			return n
		}
	}
	return def
}

func mustJSON(v interface{}) []byte {
	b, err := json.Marshal(v)
	if err != nil {
		panic(err)
	}
	return b
}

func fnv(h uint64, v uint64) uint64 { return (h ^ v) * 1099511628211 }

func hashStr(s string) uint64 {
	h := uint64(1469598103934665603)
	for i := 0; i < len(s); i++ {
		h = fnv(h, uint64(s[i]))
	}
	return h
}
