package driver

import (
	"bufio"
	"encoding/binary"
	"fmt"
	"io"
	"math"
	"os"
	"os/exec"
	"verif/domains"

	"github.com/flowmatters/openwater-core/sim"
	"verif/simrt"
)

// engine "cabi": second half of C03.  libopenwater.so (built from the scratch copy) is called
// through the C ABI by /verif/cdriver on guard-paged buffers; outputs and final states must be
// bit-identical to the Go API on Go arrays with equal contents.  The library's goroutines run
// on the library's own scheduler (free-running by nature; schedule questions belong to C05).

func init() { engines["cabi"] = engineCABI }

type cDriver struct {
	cmd *exec.Cmd
	in  io.WriteCloser
	out *bufio.Reader
}

var theDriver *cDriver

func startDriver() *cDriver {
	drv, lib := os.Getenv("VERIF_CDRIVER"), os.Getenv("VERIF_LIBOW")
	if drv == "" || lib == "" {
		panic("harness: VERIF_CDRIVER / VERIF_LIBOW not set")
	}
	cmd := exec.Command(drv, lib)
	cmd.Stderr = os.Stderr
	in, err := cmd.StdinPipe()
	if err != nil {
		panic(err)
	}
	out, err := cmd.StdoutPipe()
	if err != nil {
		panic(err)
	}
	if err := cmd.Start(); err != nil {
		panic("harness: cannot start cdriver: " + err.Error())
	}
	return &cDriver{cmd: cmd, in: in, out: bufio.NewReader(out)}
}

func (d *cDriver) kill() {
	d.in.Close()
	d.cmd.Process.Kill()
	d.cmd.Wait()
}

func putF64(w io.Writer, v []float64) {
	buf := make([]byte, 8*len(v))
	for i, x := range v {
		binary.LittleEndian.PutUint64(buf[8*i:], math.Float64bits(x))
	}
	w.Write(buf)
}

func getF64(r io.Reader, n int) ([]float64, error) {
	buf := make([]byte, 8*n)
	if _, err := io.ReadFull(r, buf); err != nil {
		return nil, err
	}
	out := make([]float64, n)
	for i := range out {
		out[i] = math.Float64frombits(binary.LittleEndian.Uint64(buf[8*i:]))
	}
	return out, nil
}

func engineCABI(rc *RunCtx) *Outcome {
	o := &Outcome{}
	w := rc.W
	var c *cellCase
	huge := w.Choose(120) == 119
	if huge {
		c = drawHugeCellCase(w)
	} else {
		c = drawCellCase(w, 5, 40)
	}
	if !huge && w.Choose(10) == 9 {
		// an "initialise only" call: zero timesteps
		c.T = 0
		for b := range c.inBlocks {
			for x := range c.inBlocks[b] {
				c.inBlocks[b][x] = c.inBlocks[b][x][:0]
			}
		}
	}
	width := len(c.stateRows[0])
	nIn, nOut := len(c.desc.Inputs), len(c.desc.Outputs)
	initStates := w.Bool(40)
	hasStates := !initStates || w.Bool(60)
	if c.T == 0 && w.Bool(60) {
		initStates, hasStates = true, true // the "initialise only" call proper
	}
	guardBefore := w.Bool(30)
	if initStates {
		// the library initialises the states itself: the Go-API reference must start from the
		// model's own initial states too
		for i := range c.stateRows {
			c.stateRows[i] = initialStateRow(c.Model, c.desc, c.cols[i%c.P], c.MaxDim)
		}
		c.padRows()
		// (the rows were replaced: the caller's buffer has the re-initialised rows' width, which is
		// what InitialiseStates(nCells) of the library produces - cell 0 holds the widest vector)
		width = len(c.stateRows[0])
	}
	// the caller's states buffer may be wider than the model needs (a host that sizes one buffer for
	// several models): the extra columns are not the model's
	pad := 0
	if !huge && w.Choose(5) == 4 {
		pad = 1 + w.Choose(3)
	}
	// ... and the outputs buffer may have room for more timesteps than the inputs have
	dT := 0
	if !huge {
		dT = []int{0, 0, 0, 1, 2}[w.Choose(5)]
	}
	c.refOut, c.refFin = nil, nil
	if huge {
		// tens of thousands of cells: the reference is the vectorised Go-API run on Go arrays
		// (its equivalence with one-cell runs is C04's business)
		c.referenceVectorised()
		o.probe("cabi_more_than_65536_cells")
	} else if c.T == 0 {
		// not every kernel accepts an empty series (some read the first element unconditionally): where
		// the Go API itself cannot run the case it is outside the working domain
		outside := false
		func() {
			defer func() {
				if r := recover(); r != nil {
					if _, ok := r.(refCrash); !ok {
						panic(r)
					}
					outside = true
				}
			}()
			c.reference()
		}()
		if outside {
			o.probe("cabi_zero_timesteps_outside_the_model's_domain")
			return o
		}
	} else {
		c.reference()
	}
	smp := c.sample()
	smp["init_states_in_library"] = initStates
	smp["states_buffer_passed"] = hasStates
	smp["guard_page"] = map[bool]string{false: "after", true: "before"}[guardBefore]
	o.Sample = smp
	o.Nontrivial = true

	rows := len(c.cols[0])
	pv := make([]float64, rows*c.P)
	for j, col := range c.cols {
		for i := 0; i < rows; i++ {
			pv[i*c.P+j] = col[i]
		}
	}
	iv := make([]float64, c.I*nIn*c.T)
	for b := 0; b < c.I; b++ {
		for x := 0; x < nIn; x++ {
			copy(iv[(b*nIn+x)*c.T:], c.inBlocks[b][x])
		}
	}
	sv := make([]float64, 0, c.N*(width+pad))
	for i := 0; i < c.N; i++ {
		if initStates {
			// garbage: the library must overwrite it
			for j := 0; j < width; j++ {
				sv = append(sv, -999)
			}
		} else {
			sv = append(sv, c.stateRows[i]...)
		}
		for j := 0; j < pad; j++ {
			sv = append(sv, 0) // the surplus columns: zeros, and they stay zeros
		}
	}
	if theDriver == nil {
		theDriver = startDriver()
	}
	d := theDriver
	hdr := []int32{int32(len(c.Model)), int32(c.I), int32(nIn), int32(c.T), int32(rows), int32(c.P), int32(c.N), int32(width + pad),
		0, int32(c.N), int32(nOut), int32(c.T + dT), 0, 0}
	if hasStates {
		hdr[8] = 1
	}
	if initStates {
		// the flag travels as one byte: any non-zero value means "initialise"
		hdr[12] = []int32{1, 1, 1, 2, 4, 128, 255}[w.Choose(7)]
	}
	if guardBefore {
		hdr[13] = 1
	}
	bw := bufio.NewWriter(d.in)
	binary.Write(bw, binary.LittleEndian, hdr)
	bw.WriteString(c.Model)
	putF64(bw, iv)
	putF64(bw, pv)
	if hasStates {
		putF64(bw, sv)
	}
	bw.Flush()
	status := make([]int32, 5)
	fail := func(err error) *Outcome {
		d.kill()
		theDriver = nil
		o.fail("c-abi-crash", "cabi/crash/"+c.Model, "%s through the C ABI: the driver process died (%v) - out-of-buffer access on a guard page or a panic in the library (cells=%d sets=%d blocks=%d T=%d init_states=%v states_buffer=%v)",
			c.Model, err, c.N, c.P, c.I, c.T, initStates, hasStates)
		return o
	}
	if err := binary.Read(d.out, binary.LittleEndian, status); err != nil {
		return fail(err)
	}
	gin, err := getF64(d.out, len(iv))
	if err != nil {
		return fail(err)
	}
	gpar, err := getF64(d.out, len(pv))
	if err != nil {
		return fail(err)
	}
	var gst []float64
	if hasStates {
		if gst, err = getF64(d.out, len(sv)); err != nil {
			return fail(err)
		}
	}
	gout, err := getF64(d.out, c.N*nOut*(c.T+dT))
	if err != nil {
		return fail(err)
	}
	for i, name := range []string{"inputs", "parameters", "states", "outputs"} {
		if status[i+1] != 1 {
			o.fail("write-outside-buffer", "cabi/canary", "%s through the C ABI: the slack next to the %s buffer was overwritten", c.Model, name)
			return o
		}
	}
	if j := bitsEqSlice(gin, iv); j >= 0 {
		o.fail("inputs-modified", "cabi/inputs", "%s through the C ABI modified its inputs at flat index %d", c.Model, j)
		return o
	}
	if j := bitsEqSlice(gpar, pv); j >= 0 {
		o.fail("parameters-modified", "cabi/params", "%s through the C ABI modified its parameters at flat index %d", c.Model, j)
		return o
	}
	for i := 0; i < c.N; i++ {
		for b := 0; b < nOut; b++ {
			for t := 0; t < c.T; t++ {
				o.Checks++
				if g, e := gout[(i*nOut+b)*(c.T+dT)+t], c.refOut[i][b*c.T+t]; !bitsEq(g, e) {
					o.fail("c-abi-output-differs", "cabi/output/"+c.Model, "%s through the C ABI: cell %d output %s[%d] = %v, the Go API gives %v (cells=%d sets=%d blocks=%d T=%d init_states=%v)",
						c.Model, i, c.desc.Outputs[b], t, g, e, c.N, c.P, c.I, c.T, initStates)
					return o
				}
			}
		}
		for b := 0; b < nOut; b++ {
			for t := c.T; t < c.T+dT; t++ {
				o.Checks++
				if g := gout[(i*nOut+b)*(c.T+dT)+t]; g != 0 {
					o.fail("c-abi-output-differs", "cabi/output-surplus/"+c.Model, "%s through the C ABI: cell %d output %s: the surplus timestep %d of the caller's longer output row holds %v (the series has %d steps)", c.Model, i, c.desc.Outputs[b], t, g, c.T)
					return o
				}
			}
		}
		if hasStates {
			for j := 0; j < width+pad; j++ {
				o.Checks++
				e := 0.0
				if j < len(c.refFin[i]) {
					e = c.refFin[i][j]
				}
				if g := gst[i*(width+pad)+j]; !bitsEq(g, e) {
					o.fail("c-abi-state-differs", "cabi/state/"+c.Model, "%s through the C ABI: cell %d final state[%d] = %v, the Go API gives %v (init_states=%v)", c.Model, i, j, g, e, initStates)
					return o
				}
			}
		}
	}
	o.probe("cabi_job")
	if dT > 0 {
		o.probe("cabi_output_rows_longer_than_the_series")
	}
	if pad > 0 && hasStates {
		o.probe("cabi_states_buffer_wider_than_the_model_needs")
	}
	if c.T == 0 {
		o.probe("cabi_zero_timesteps")
	}
	if initStates {
		o.probe("cabi_library_initialises_states")
	}
	if !hasStates {
		o.probe("cabi_null_states_buffer")
	}
	return o
}

var _ = fmt.Sprint
var _ = sim.Catalog
var _ = simrt.RaceBuild

// drawHugeCellCase: more cells than any per-call limit a library might have (2^16 + a bit), a cheap
// model, few timesteps, parameter-set and input-block counts that do not divide powers of two.
func drawHugeCellCase(w *simrt.Tape) *cellCase {
	c := &cellCase{}
	c.Model = []string{"RunoffCoefficient", "GR4J", "Muskingum", "Sum"}[w.Choose(4)]
	c.desc = sim.Catalog[c.Model]().Description()
	c.N = 65537 + w.Choose(5000)
	c.P = []int{1, 3, 7, 1000}[w.Choose(4)]
	c.I = []int{1, 3, 5, c.N}[w.Choose(4)]
	c.T = 1 + w.Choose(3)
	c.cols, c.MaxDim = drawColumns(w, c.Model, c.P)
	for b := 0; b < c.I; b++ {
		if b < 16 {
			c.inBlocks = append(c.inBlocks, domains.GenInputs(w, c.Model, c.cols[b%c.P], c.MaxDim, c.T))
		} else {
			c.inBlocks = append(c.inBlocks, c.inBlocks[b%16])
		}
	}
	rows := make([][]float64, c.P)
	for j := range rows {
		rows[j] = initialStateRow(c.Model, c.desc, c.cols[j], c.MaxDim)
	}
	for i := 0; i < c.N; i++ {
		c.stateRows = append(c.stateRows, rows[i%c.P])
	}
	c.padRows()
	return c
}

func (c *cellCase) referenceVectorised() {
	nIn, nOut := len(c.desc.Inputs), len(c.desc.Outputs)
	width := len(c.stateRows[0])
	params := paramMatrix(false, c.cols)
	iv := make([]float64, c.I*nIn*c.T)
	for b := 0; b < c.I; b++ {
		for x := 0; x < nIn; x++ {
			copy(iv[(b*nIn+x)*c.T:], c.inBlocks[b][x])
		}
	}
	sv := make([]float64, 0, c.N*width)
	for i := 0; i < c.N; i++ {
		sv = append(sv, c.stateRows[i]...)
	}
	inputs := mk3(false, c.I, nIn, c.T, iv)
	states := mk2(false, c.N, width, sv)
	outputs := mk3(false, c.N, nOut, c.T, nil)
	setupModel(c.Model, params).Run(inputs, states, outputs)
	fo, fs := flat3(outputs), flat2(states)
	for i := 0; i < c.N; i++ {
		c.refOut = append(c.refOut, fo[i*nOut*c.T:(i+1)*nOut*c.T])
		c.refFin = append(c.refFin, fs[i*width:(i+1)*width])
	}
}
