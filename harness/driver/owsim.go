package driver

import (
	"math"
	"fmt"
	"reflect"
	"sort"
	"strings"
	"time"

	owsim "github.com/flowmatters/openwater-core/cmd/ow-sim"
	"github.com/flowmatters/openwater-core/sim"
	hdf5 "gonum.org/v1/hdf5"
	"verif/domains"
	"verif/simrt"
)

// engine "owsim": C07 (and, in the -race binary, the ow-sim half of C05).
//
// Real cmd/ow-sim (run_simulation, runGeneration, writer goroutines, modelReference), real io,
// data, sim, models; stub: HDF5 library and file namespace.  One run = one random model graph
// file + command line, executed under the seeded scheduler with seeded disk latencies, compared
// with a sequential reference executor.

func init() { engines["owsim"] = engineOwSim; engines["owsimext"] = engineOwSimExt }

// models that tolerate any non-negative linked input
var linkDest = []string{"Input", "Sum", "ApplyScalingFactor", "FixedPartition", "DeliveryRatio", "Gate", "PartitionDemand",
	"RunoffCoefficient", "EmcDwc", "FixedConcentration", "Lag", "Muskingum", "DepthToRate", "PassLoadIfFlow", "ComputeProportion", "VariablePartition"}
var sourceOnly = []string{"GR4J", "Simhyd", "RatingCurvePartition", "Sacramento", "Surm", "DateGenerator",
	"Storage", "StorageRouting", "StorageTrapAll", "StorageParticulateTrapping", "StorageDissolvedDecay", "DynamicSednetGully", "DynamicSednetGullyAlt"}

// owPoolExclude: models left out of the graph (set by the hot-start engine for models whose
// continuity defects are known findings of C06).
var owPoolExclude = map[string]bool{}

type gNode struct {
	own    int // own state-vector width (the dataset row may be wider: zero padded)
	col    []float64
	state  []float64
	inputs [][]float64 // stored inputs [input][t] (nil if the model has no stored inputs)
	// reference results
	finalIn [][]float64
	out     []float64 // [nOut*T]
	fin     []float64
}

type gModel struct {
	name      string
	desc      sim.ModelDescription
	maxDim    int
	gens      [][]*gNode // nodes per generation
	hasInputs bool
	destOK    bool
	batches   []int32
	total     int
	width     int
}

type gLink struct {
	srcGen, srcModel, srcNode, srcVar     int
	destGen, destModel, destNode, destVar int
}

type owCase struct {
	models                                           []*gModel
	links                                            []gLink
	G, T                                             int
	flags                                            owsim.VerifFlagSet
	args                                             []string
	in, out, paramFile, stateFile, tsFile, finalFile string
	preexisting                                      bool
	relatedNames                                     bool
	t0, t1                                           int // time window written by buildFiles (0,0 = the whole period)
	mixedWidths                                      bool
	confluence                                       bool
	dir                                              string
	negZeros                                         bool
	nameStyle                                        int // layout of the /META/models strings
	rolling                                          bool // -final-states names the file the initial states come from
}

func contains(l []string, s string) bool {
	for _, x := range l {
		if x == s {
			return true
		}
	}
	return false
}

func drawOwCase(w *simrt.Tape) *owCase {
	// where the files live: absolute, relative, with a blank or dots in a directory name (never a
	// comma or an equals sign: the -outputs list is split at those)
	dir := []string{"/sim/", "/sim/", "", "./", "/data/run 1/", "/a.b/c-d/", "/sim/model.h5.d/"}[w.Choose(7)]
	c := &owCase{in: dir + "model.h5", dir: dir}
	c.G = sizeDraw(w, 5, 9)
	c.T = sizeDraw(w, 12, 50)
	nModels := 1 + w.Choose(4)
	var pool []string
	for _, n := range append(append([]string{}, linkDest...), sourceOnly...) {
		if !owPoolExclude[n] {
			pool = append(pool, n)
		}
	}
	used := map[string]bool{}
	relatedNames := false
	bigGen := false
	for i := 0; i < nModels; i++ {
		name := pool[w.Choose(len(pool))]
		if len(c.models) > 0 && w.Bool(25) {
			// model types whose names contain one another (name lists on the command line are
			// matched against them)
			var related []string
			for _, m := range c.models {
				for _, cand := range pool {
					if cand != m.name && !used[cand] && (strings.Contains(cand, m.name) || strings.Contains(m.name, cand)) {
						related = append(related, cand)
					}
				}
			}
			if len(related) > 0 {
				name = related[w.Choose(len(related))]
				relatedNames = true
			}
		}
		if used[name] {
			continue
		}
		used[name] = true
		m := &gModel{name: name, desc: sim.Catalog[name]().Description(), destOK: contains(linkDest, name)}
		if domains.IsDimensioned(name) {
			m.maxDim = 2 + w.Choose(3)
		}
		m.hasInputs = !m.destOK || w.Bool(70)
		class := -1
		mixedWidths := false
		first := true
		// a model may be confined to one later generation (it only appears downstream): its single
		// batch then covers all of its rows
		confined := -1
		if c.G > 1 && w.Choose(6) == 5 {
			confined = 1 + w.Choose(c.G-1)
		}
		for g := 0; g < c.G; g++ {
			n := w.Choose(5) // 0..4 nodes: empty batches occur
			if confined >= 0 {
				if g == confined {
					n = 1 + w.Choose(4)
				} else {
					n = 0
				}
			}
			if w.Choose(16) == 15 {
				n = 5 + w.Choose(8)
			}
			if !bigGen && name != "Storage" && name != "Sacramento" && w.Choose(120) == 119 {
				// once in a while a generation of a few hundred nodes (where an implementation might
				// start reading ahead, batching or pooling)
				n = 256 + w.Choose(150)
				bigGen = true
			}
			if m.maxDim > 0 && g == c.G-1 && m.total == 0 && n == 0 {
				n = 1 // a table model needs at least one node (FindDimensions takes a maximum over its parameter matrix)
			}
			var nodes []*gNode
			for k := 0; k < n; k++ {
				force := 0
				if first && m.maxDim > 0 {
					force = m.maxDim
				}
				col := domains.GenParams(w, name, m.maxDim, force)
				if class < 0 {
					class = domains.StateWidthClass(name, col)
					mixedWidths = w.Bool(40)
				} else if !mixedWidths {
					domains.ForceStateWidthClass(name, col, class)
				}
				first = false
				nd := &gNode{col: col}
				nd.state = initialStateRow(name, m.desc, col, m.maxDim)
				if w.Bool(40) && len(nd.state) > 0 && name != "GR4J" {
					for j := range nd.state {
						nd.state[j] = float64(w.Choose(50)) / 10
					}
				}
				if m.hasInputs {
					nd.inputs = domains.GenInputs(w, name, col, m.maxDim, c.T)
					if m.destOK && w.Choose(10) == 9 {
						// stored series with negative zeros (what a subtraction of equal numbers rounded
						// towards minus infinity, or a -0 in a source file, leaves): a link that adds +0
						// turns them into +0, bit for bit
						for _, ser := range nd.inputs {
							for t := range ser {
								if ser[t] == 0 || w.Choose(6) == 5 {
									ser[t] = math.Copysign(0, -1)
								}
							}
						}
						c.negZeros = true
					}
				}
				nodes = append(nodes, nd)
			}
			m.gens = append(m.gens, nodes)
			m.total += n
			m.batches = append(m.batches, int32(m.total))
		}
		if m.total > 0 {
			// the states dataset is rectangular: its width is the widest node's, narrower rows are
			// zero padded (the kernels know their own lengths)
			for _, g := range m.gens {
				for _, nd := range g {
					if len(nd.state) > m.width {
						m.width = len(nd.state)
					}
				}
			}
			for _, g := range m.gens {
				for _, nd := range g {
					nd.own = len(nd.state)
					if nd.own < m.width {
						c.mixedWidths = true
					}
				}
			}
		}
		c.models = append(c.models, m)
	}
	c.relatedNames = relatedNames
	// at least one model with stored inputs must exist, otherwise ow-sim cannot know the length
	anyInputs := false
	for _, m := range c.models {
		if m.hasInputs && m.total > 0 {
			anyInputs = true
		}
	}
	if !anyInputs {
		m := c.models[0]
		m.hasInputs = true
		if m.total == 0 {
			col := domains.GenParams(w, m.name, m.maxDim, m.maxDim)
			nd := &gNode{col: col, state: initialStateRow(m.name, m.desc, col, m.maxDim)}
			m.gens[0] = append(m.gens[0], nd)
			m.total = 0
			for g := range m.gens {
				m.total += len(m.gens[g])
				m.batches[g] = int32(m.total)
			}
			m.width = len(nd.state)
		}
		for _, g := range m.gens {
			for _, nd := range g {
				nd.inputs = domains.GenInputs(w, m.name, nd.col, m.maxDim, c.T)
			}
		}
	}
	// links: from generation a to a later generation b, destinations tolerate any input
	nLinks := w.Choose(9)
	for k := 0; k < nLinks && c.G > 1; k++ {
		sg := w.Choose(c.G - 1)
		dg := sg + 1 + w.Choose(c.G-1-sg)
		sm := w.Choose(len(c.models))
		dm := w.Choose(len(c.models))
		if !c.models[dm].destOK || len(c.models[sm].gens[sg]) == 0 || len(c.models[dm].gens[dg]) == 0 {
			continue
		}
		l := gLink{srcGen: sg, srcModel: sm, srcNode: w.Choose(len(c.models[sm].gens[sg])), srcVar: w.Choose(len(c.models[sm].desc.Outputs)),
			destGen: dg, destModel: dm, destNode: w.Choose(len(c.models[dm].gens[dg])), destVar: w.Choose(len(c.models[dm].desc.Inputs))}
		c.links = append(c.links, l)
		if w.Bool(30) { // fan-in: a second link into the same input
			l2 := l
			l2.srcNode = w.Choose(len(c.models[sm].gens[sg]))
			l2.srcVar = w.Choose(len(c.models[sm].desc.Outputs))
			c.links = append(c.links, l2)
		}
	}
	if c.G > 1 && w.Choose(4) == 3 {
		// a confluence: many links (3-35) from the nodes of one generation into one input series; the
		// sum is accumulated in the order of the /LINKS rows
		sg := w.Choose(c.G - 1)
		dg := sg + 1 + w.Choose(c.G-1-sg)
		dm := w.Choose(len(c.models))
		if c.models[dm].destOK && len(c.models[dm].gens[dg]) > 0 {
			dn, dv := w.Choose(len(c.models[dm].gens[dg])), w.Choose(len(c.models[dm].desc.Inputs))
			n := []int{3 + w.Choose(6), 16 + w.Choose(20)}[w.Choose(2)]
			for k := 0; k < n; k++ {
				sm := w.Choose(len(c.models))
				if len(c.models[sm].gens[sg]) == 0 {
					continue
				}
				c.links = append(c.links, gLink{srcGen: sg, srcModel: sm, srcNode: w.Choose(len(c.models[sm].gens[sg])), srcVar: w.Choose(len(c.models[sm].desc.Outputs)),
					destGen: dg, destModel: dm, destNode: dn, destVar: dv})
			}
			c.confluence = true
		}
	}
	sort.SliceStable(c.links, func(i, j int) bool { return c.links[i].srcGen < c.links[j].srcGen })
	// command line
	if w.Bool(85) {
		c.out = dir + "out.h5"
	}
	var names []string
	for _, m := range c.models {
		names = append(names, m.name)
	}
	pick := func() string {
		var sel []string
		for _, n := range names {
			if w.Bool(50) {
				sel = append(sel, n)
			}
		}
		return strings.Join(sel, ",")
	}
	switch w.Choose(6) {
	case 1:
		c.flags.OutputsFor = pick()
	case 2:
		c.flags.NoOutputsFor = pick()
	case 3:
		c.flags.InputsFor = pick()
	case 4:
		c.flags.NoInputsFor = pick()
	case 5:
		c.flags.InputsFor = pick()
		c.flags.NoOutputsFor = pick()
	}
	c.flags.Verbose = w.Bool(15) // -v: more log output, the same results
	c.nameStyle = []int{0, 0, 0, 1, 2}[w.Choose(5)]
	c.paramFile, c.stateFile, c.tsFile = c.in, c.in, c.in
	if w.Bool(20) {
		c.paramFile = dir + "params.h5"
		c.flags.Parameters = c.paramFile
	}
	if w.Bool(20) {
		c.stateFile = dir + "states.h5"
		c.flags.InitialStates = c.stateFile
	}
	if w.Bool(20) {
		c.tsFile = dir + "ts.h5"
		c.flags.InputTimeseries = c.tsFile
	}
	c.finalFile = c.out
	if c.out != "" && w.Bool(20) {
		c.finalFile = dir + "final.h5"
		c.flags.FinalStates = c.finalFile
	} else if c.out != "" && w.Choose(10) == 9 {
		// a rolling hot-start file: the final states replace the initial states they were read from
		// (a generation's rows are written only after that generation has been loaded and run)
		c.finalFile = c.stateFile
		c.flags.FinalStates = c.finalFile
		c.rolling = true
	}
	if c.out != "" && w.Bool(25) {
		c.preexisting = true
		c.flags.Overwrite = true
	}
	c.args = []string{c.in}
	if c.out != "" {
		c.args = append(c.args, c.out)
	}
	return c
}

// buildFiles writes the model graph file(s) directly onto the fake disk.
func (c *owCase) buildFiles() {
	var names []string
	for _, m := range c.models {
		names = append(names, m.name)
	}
	// the names are NUL-terminated fixed-width strings: the field is 64 bytes wide, or just wide
	// enough (the longest name then fills it without a terminator); the bytes after a terminator
	// are zeros, or left-overs of an earlier use of the buffer
	width := 64
	raw := append([]string(nil), names...)
	switch c.nameStyle {
	case 1:
		width = 0
		for _, n := range names {
			if len(n) > width {
				width = len(n)
			}
		}
	case 2:
		for i, n := range raw {
			if len(n)+3 < width {
				raw[i] = n + "\x00ngFactor~"[:2+len(n)%9]
			}
		}
	}
	hdf5.PutStrings(c.in, "/META/models", raw, width)
	hdf5.MakeGroup(c.in, "/DIMENSIONS")
	lv := make([]uint32, 0, len(c.links)*10)
	for _, l := range c.links {
		srcGlobal, destGlobal := l.srcNode, l.destNode
		if l.srcGen > 0 {
			srcGlobal += int(c.models[l.srcModel].batches[l.srcGen-1])
		}
		if l.destGen > 0 {
			destGlobal += int(c.models[l.destModel].batches[l.destGen-1])
		}
		lv = append(lv, uint32(l.srcGen), uint32(l.srcModel), uint32(srcGlobal), uint32(l.srcNode), uint32(l.srcVar),
			uint32(l.destGen), uint32(l.destModel), uint32(destGlobal), uint32(l.destNode), uint32(l.destVar))
	}
	if len(lv) == 0 {
		lv = make([]uint32, 1)
	}
	hdf5.PutRaw(c.in, "/LINKS", []int{len(c.links), 10}, lv)
	for _, m := range c.models {
		base := "/MODELS/" + m.name
		hdf5.PutRaw(c.in, base+"/batches", []int{len(m.batches)}, m.batches)
		rows := 0
		if m.total > 0 {
			rows = len(m.allNodes()[0].col)
		} else {
			rows = layoutOf(m.desc, m.maxDim).rows
		}
		nodes := m.allNodes()
		pv := make([]float64, rows*m.total+1)
		for j, nd := range nodes {
			for i := 0; i < rows; i++ {
				pv[i*m.total+j] = nd.col[i]
			}
		}
		hdf5.PutRaw(c.paramFile, base+"/parameters", []int{rows, m.total}, pv)
		sv := make([]float64, 0, m.total*m.width+1)
		for _, nd := range nodes {
			sv = append(sv, nd.state...)
			sv = append(sv, make([]float64, m.width-len(nd.state))...)
		}
		sv = append(sv, 0)
		hdf5.PutRaw(c.stateFile, base+"/states", []int{m.total, m.width}, sv)
		if m.hasInputs {
			nIn := len(m.desc.Inputs)
			iv := make([]float64, 0, m.total*nIn*c.T+1)
			for _, nd := range nodes {
				for k := 0; k < nIn; k++ {
					if c.t1 > 0 {
						iv = append(iv, nd.inputs[k][c.t0:c.t1]...)
					} else {
						iv = append(iv, nd.inputs[k]...)
					}
				}
			}
			iv = append(iv, 0)
			tw := c.T
			if c.t1 > 0 {
				tw = c.t1 - c.t0
			}
			hdf5.PutRaw(c.tsFile, base+"/inputs", []int{m.total, nIn, tw}, iv)
		}
	}
	if c.preexisting {
		hdf5.PutRaw(c.out, "/stale/data", []int{2}, []float64{1, 2})
	}
}

func (m *gModel) allNodes() []*gNode {
	var out []*gNode
	for _, g := range m.gens {
		out = append(out, g...)
	}
	return out
}

// reference: the sequential semantics of the property.
func (c *owCase) reference() {
	for _, m := range c.models {
		for _, nd := range m.allNodes() {
			nIn := len(m.desc.Inputs)
			nd.finalIn = make([][]float64, nIn)
			for k := 0; k < nIn; k++ {
				nd.finalIn[k] = make([]float64, c.T)
				if nd.inputs != nil {
					copy(nd.finalIn[k], nd.inputs[k])
				}
			}
		}
	}
	for g := 0; g < c.G; g++ {
		for _, m := range c.models {
			for _, nd := range m.gens[g] {
				nd.out, nd.fin = refRun(m.name, m.desc, nd.col, m.maxDim, nd.state, nd.finalIn, c.T)
			}
		}
		for _, l := range c.links {
			if l.srcGen != g {
				continue
			}
			src := c.models[l.srcModel].gens[l.srcGen][l.srcNode]
			dst := c.models[l.destModel].gens[l.destGen][l.destNode]
			for t := 0; t < c.T; t++ {
				dst.finalIn[l.destVar][t] += src.out[l.srcVar*c.T+t]
			}
		}
	}
}

func listed(flag, name string) bool {
	if flag == "" {
		return false
	}
	for _, x := range strings.Split(flag, ",") {
		if x == name {
			return true
		}
	}
	return false
}

func engineOwSim(rc *RunCtx) *Outcome {
	return runOwCase(rc, drawOwCase(rc.W), nil)
}

// engine "owsimext": ow-sim with "-outputs model=file,...": the results of the named models are
// streamed (length-prefixed protobuf messages) through a pipe to child processes "ow-sim -writer
// file".  Parent, stdin copier and every child run as simulated processes (simrt/proc.go): seeded
// pipe capacity, short reads, latencies; a child's exit ends only the child; the parent's exit
// closes its pipe ends.
func engineOwSimExt(rc *RunCtx) *Outcome {
	w := rc.W
	c := drawOwCase(w)
	if c.out == "" {
		c.out = c.dir + "out.h5"
		c.finalFile = c.out
		c.args = []string{c.in, c.out}
	}
	if c.rolling {
		// (final states of externally written models are not written at all - known finding - so a
		// states file that already holds the initial states would only blur that finding)
		c.rolling, c.finalFile, c.flags.FinalStates = false, c.out, ""
	}
	ext := map[string]string{}
	var pairs []string
	for i, m := range c.models {
		if w.Bool(50) || (i == len(c.models)-1 && len(ext) == 0) {
			ext[m.name] = c.dir + "ext-" + m.name + ".h5"
			pairs = append(pairs, m.name+"="+ext[m.name])
		}
	}
	c.flags.SplitOutputs = strings.Join(pairs, ",")
	return runOwCase(rc, c, ext)
}

// runOwCase executes one ow-sim command line under the simulator and applies the oracles.  ext
// maps the models whose results go to a file of their own ("-outputs model=file": written by a
// child process "ow-sim -writer file" that receives the results through a pipe) to that file.
func runOwCase(rc *RunCtx, c *owCase, ext map[string]string) *Outcome {
	o := &Outcome{}
	w := rc.W
	kp := ""
	if ext != nil {
		kp = "ext/"
	}
	outFile := func(m *gModel) string {
		if f, ok := ext[m.name]; ok {
			return f
		}
		return c.out
	}
	finalFile := func(m *gModel) string {
		if c.flags.FinalStates != "" {
			return c.flags.FinalStates
		}
		return outFile(m)
	}
	c.reference()
	ctl := hdf5.Reset()
	ctl.Tape = rc.S
	ctl.Monitor = true
	ctl.Latency = w.Bool(70)
	c.buildFiles()
	owsim.VerifSetFlags(c.flags)
	var modelNames []string
	nodes := 0
	for _, m := range c.models {
		modelNames = append(modelNames, fmt.Sprintf("%s%v", m.name, m.batches))
		nodes += m.total
	}
	smp := map[string]interface{}{"models_with_batches": modelNames, "generations": c.G, "timesteps": c.T, "links": len(c.links),
		"args": c.args, "flags": fmt.Sprintf("%+v", c.flags), "disk_latency": ctl.Latency}
	o.Sample = smp
	var retSeq int64 = -1
	simrt.ResetProcs()
	simrt.ProcMain = owsim.VerifChildMain
	simrt.PipeOpts = simrt.PipeOptions{}
	if ext != nil {
		simrt.PipeOpts = simrt.PipeOptions{Tape: rc.S, ShortReads: w.Bool(60), Latency: w.Bool(50), OSPipeCap: []int{65536, 61, 509, 4096}[w.Choose(4)]}
		smp["pipe"] = fmt.Sprintf("%+v", struct {
			ShortReads, Latency bool
			Capacity            int
		}{simrt.PipeOpts.ShortReads, simrt.PipeOpts.Latency, simrt.PipeOpts.OSPipeCap})
		smp["split_outputs"] = c.flags.SplitOutputs
	}
	maxSteps := 0 // the simulator's default
	if ext != nil {
		// every refill of a small pipe is a scheduling decision: the bound on the number of decisions
		// must not turn a long transfer into a "no progress" report
		maxSteps = 4000000
	}
	s := simrt.Run(rc.T, simrt.Config{TraceCap: 0, DeepPct: 20, MaxSimTime: 1000 * time.Hour, MaxSteps: maxSteps}, rc.S, func() {
		owsim.VerifRunSimulation(c.args)
		retSeq = simrt.NextSeq()
		// the root process is gone: the operating system closes the pipe ends it held
		simrt.RootExited()
	})
	o.Sim = s
	o.Nontrivial = s.Stats.Picks > 0 && nodes > 0
	if s.Stats.ClockJumps > 0 {
		o.probe("clock_jumped(sleep_or_disk_latency)")
	}
	if s.Stats.Tasks > 2 {
		o.probe("tasks>2")
	}
	switch s.Outcome {
	case "":
	case "crash":
		o.fail("process-crash", kp+"crash@"+crashSite(s.Crash.Stack), "ow-sim panicked on a valid model graph: %s at %s\n%s", s.Crash.Value, s.Crash.Site, s.Crash.Stack)
		return o
	case "exit":
		o.fail("unexpected-exit", kp+"exit", "ow-sim called os.Exit(%d) on a valid model graph (at %s)", *s.ExitCode, s.ExitSite)
		return o
	case "deadlock":
		o.fail("no-progress", kp+"deadlock", "ow-sim cannot make progress (deadlock after %.1f simulated seconds); tasks: %v", float64(s.Stats.SimNanos)/1e9, s.Blocked)
		return o
	default:
		o.fail("no-progress", kp+s.Outcome, "ow-sim did not finish within the step/time bound (%s); tasks: %v", s.Outcome, s.Blocked)
		return o
	}
	monitorViolations(ctl, o)
	if o.Class != "" {
		return o
	}
	// protocol probes from the trace
	purges := 0
	seenPurge := map[string]int{}
	for _, tr := range s.Traces {
		if tr.Name == "PurgeGeneration" && len(tr.Args) >= 2 {
			purges++
			seenPurge[fmt.Sprintf("%p/%v", tr.Args[0], tr.Args[1])]++
		}
	}
	if purges > 0 {
		o.probe("generation_purged")
	}
	for _, n := range seenPurge {
		if n > 1 {
			// a token was received by a writer that was not waiting for it: purge, re-send, sleep
			o.probe("writer_received_foreign_token(resend+sleep_path)")
			break
		}
	}
	// (2) exactly once, before return; (3) no reload
	type wkey struct {
		file, path string
		row        uint
	}
	writes := map[wkey]int{}
	isOut := map[string]bool{c.out: true, c.finalFile: true}
	for _, m := range c.models {
		isOut[outFile(m)] = true
		isOut[finalFile(m)] = true
	}
	reads := map[wkey]int{}
	for _, cl := range ctl.Log {
		if cl.Seq > retSeq && retSeq >= 0 && cl.Op != "" {
			o.fail("activity-after-return", kp+"after-return", "HDF5 call %s on %s:%s by task %s after run_simulation had returned", cl.Op, cl.File, cl.Path, cl.Task)
			return o
		}
		if cl.Op == "Write" && cl.Start != nil && isOut[cl.File] {
			writes[wkey{cl.File, cl.Path, cl.Start[0]}]++
		}
		if cl.Op == "Read" && strings.HasPrefix(cl.Path, "/MODELS/") && cl.Start != nil && cl.Elems > 0 {
			reads[wkey{cl.File, cl.Path, cl.Start[len(cl.Start)-len(cl.Start)]}]++
		}
	}
	for k, n := range writes {
		if n > 1 {
			o.fail("written-more-than-once", kp+"exactly-once", "block at row %d of %s:%s was written %d times", k.row, k.file, k.path, n)
			return o
		}
	}
	for k, n := range reads {
		if n > 1 && !strings.HasSuffix(k.path, "/parameters") {
			o.fail("generation-reloaded", kp+"reload", "rows starting at %d of %s:%s were loaded %d times (a generation was discarded while still needed)", k.row, k.file, k.path, n)
			return o
		}
	}
	if s.Stats.Tasks > 1 && len(s.Blocked) > 0 {
		o.fail("task-alive-at-exit", kp+"alive", "tasks still alive when run_simulation returned: %v", s.Blocked)
		return o
	}
	// (1) differential oracle on the output files
	if c.out == "" {
		for _, f := range hdf5.FileNames() {
			if f != c.in && f != c.paramFile && f != c.stateFile && f != c.tsFile {
				o.fail("unexpected-file", kp+"unexpected-file", "file %s was created although no output file was given", f)
				return o
			}
		}
		o.probe("no_output_file")
		return o
	}
	var late func()
	expect := map[string]map[string]bool{c.out: {}, c.finalFile: {}}
	for _, m := range c.models {
		for _, f := range []string{outFile(m), finalFile(m)} {
			if expect[f] == nil {
				expect[f] = map[string]bool{}
			}
		}
	}
	for _, m := range c.models {
		if m.total == 0 {
			continue
		}
		base := "/MODELS/" + m.name
		nIn, nOut := len(m.desc.Inputs), len(m.desc.Outputs)
		wantOutputs := !listed(c.flags.NoOutputsFor, m.name) || listed(c.flags.OutputsFor, m.name)
		if c.flags.OutputsFor != "" && !listed(c.flags.OutputsFor, m.name) && !listed(c.flags.NoOutputsFor, m.name) {
			wantOutputs = true // -outputs-for only adds; the default stays "write outputs"
		}
		nodes := m.allNodes()
		of, ff := outFile(m), finalFile(m)
		_, external := ext[m.name]
		key := func(kind string) string {
			if external {
				// results that travel through the pipe to a writer process: one key per kind of
				// failure, with "missing" kept apart from "wrong"
				return "ext/" + kind
			}
			return kp + kind + "/" + m.name
		}
		if external {
			o.probe("model_written_by_child_process")
		}
		if wantOutputs {
			expect[of][base+"/outputs"] = true
			ev := make([]float64, 0, m.total*nOut*c.T)
			for _, nd := range nodes {
				ev = append(ev, nd.out...)
			}
			if external && !datasetExists(of, base+"/outputs") {
				o.fail("outputs-missing", "ext/outputs-missing", "outputs of %s (batches %v) were to be written to %s by a writer process, but %s:%s/outputs does not exist when ow-sim has finished", m.name, m.batches, of, of, base)
				return o
			}
			if e := compareDataset(of, base+"/outputs", []int{m.total, nOut, c.T}, ev); e != nil {
				o.fail("outputs-differ", key("outputs"), "%v (model batches %v, %d links)", e, m.batches, len(c.links))
				return o
			}
			o.Checks += len(ev)
		}
		if !external || datasetExists(ff, base+"/states") {
			expect[ff][base+"/states"] = true
		}
		sv := make([]float64, 0, m.total*m.width)
		for _, nd := range nodes {
			sv = append(sv, nd.fin...)
			sv = append(sv, make([]float64, m.width-len(nd.fin))...)
		}
		if external && !datasetExists(ff, base+"/states") {
			// reported last, so that everything else about this run is still checked
			mName, mBatches := m.name, m.batches
			if late == nil {
				late = func() {
					o.fail("states-missing", "ext/states-missing", "final states of %s (batches %v): %s:%s/states does not exist when ow-sim has finished (results of this model go to a writer process)", mName, mBatches, ff, base)
				}
			}
		} else if e := compareDataset(ff, base+"/states", []int{m.total, m.width}, sv); e != nil {
			o.fail("states-differ", key("states"), "%v (model batches %v)", e, m.batches)
			return o
		}
		o.Checks += len(sv)
		// final inputs: asserted where requested; where the command line is silent the
		// implementation may or may not write them, but what it writes must be right
		requested := listed(c.flags.InputsFor, m.name)
		forbidden := listed(c.flags.NoInputsFor, m.name) && !requested
		iv := make([]float64, 0, m.total*nIn*c.T)
		for _, nd := range nodes {
			for k := 0; k < nIn; k++ {
				iv = append(iv, nd.finalIn[k]...)
			}
		}
		present := datasetExists(of, base+"/inputs")
		if requested && !present {
			o.fail("inputs-missing", key("inputs"), "final inputs of %s were requested with -inputs-for but %s:%s/inputs does not exist", m.name, of, base)
			return o
		}
		if forbidden && present {
			o.fail("inputs-unwanted", key("inputs"), "final inputs of %s were excluded with -no-inputs-for but were written", m.name)
			return o
		}
		if present {
			expect[of][base+"/inputs"] = true
			if e := compareDataset(of, base+"/inputs", []int{m.total, nIn, c.T}, iv); e != nil {
				o.fail("inputs-differ", key("inputs"), "%v (model batches %v, %d links)", e, m.batches, len(c.links))
				return o
			}
			o.probe("final_inputs_written")
		}
		if !wantOutputs && datasetExists(of, base+"/outputs") {
			o.fail("outputs-unwanted", key("outputs"), "outputs of %s were excluded on the command line but were written", m.name)
			return o
		}
	}
	// nothing else was written
	for f, want := range expect {
		if c.rolling && f == c.finalFile {
			// the states file is one of the input files: it legitimately holds other datasets
			continue
		}
		ds, _, ok := hdf5.Snapshot(f)
		if !ok {
			any := false
			for range want {
				any = true
			}
			if any {
				o.fail("output-file-missing", kp+"file-missing", "output file %s does not exist", f)
				return o
			}
			continue
		}
		for _, d := range ds {
			if !want[d.Path] {
				if f == c.out && d.Path == "/stale/data" {
					o.fail("stale-output-kept", kp+"overwrite", "-overwrite was given but the old content of %s is still there", f)
				} else {
					o.fail("unexpected-dataset", kp+"unexpected-dataset", "unexpected dataset %s:%s", f, d.Path)
				}
				return o
			}
		}
	}
	if n := hdf5.OpenHandles(); n != 0 {
		o.fail("handle-leak", kp+"handle-leak", "%d file handle(s) left open", n)
	}
	if len(c.links) > 0 {
		o.probe("graph_with_links")
	}
	if c.confluence {
		o.probe("confluence(3-35_links_into_one_input)")
	}
	if c.rolling {
		o.probe("final_states_written_over_the_initial_states_file")
	}
	if c.negZeros {
		o.probe("stored_inputs_with_negative_zeros")
	}
	for _, m := range c.models {
		for _, g := range m.gens {
			if len(g) >= 256 {
				o.probe("generation_with_256_or_more_nodes")
			}
		}
	}
	if c.preexisting {
		o.probe("overwrite_existing_output")
	}
	if c.relatedNames {
		o.probe("model_names_containing_one_another")
	}
	if c.mixedWidths {
		o.probe("nodes_with_different_state_widths(zero_padded_rows)")
	}
	if ext != nil {
		for _, cmd := range simrt.Procs() {
			if pr := cmd.Proc(); pr != nil && pr.ExitCode != 0 && o.Class == "" {
				o.fail("writer-process-failed", "ext/writer-exit", "writer process %v ended with exit status %d", pr.Args, pr.ExitCode)
			}
		}
		o.probe("external_writer_processes")
		pc := simrt.PipeCounters
		if pc.ShortReads > 0 {
			o.probe("pipe_short_read")
		}
		if pc.FullWaits > 0 {
			o.probe("pipe_full(writer_waited_for_room)")
		}
		if pc.SlowReads > 0 {
			o.probe("pipe_slow_reader")
		}
		if len(simrt.Procs()) > 1 {
			o.probe("two_or_more_writer_processes")
		}
		if o.Faults == nil {
			o.Faults = map[string]int{}
		}
		o.Faults["pipe_short_read"] += pc.ShortReads
		o.Faults["pipe_full_writer_blocked"] += pc.FullWaits
		o.Faults["pipe_slow_reader_delay"] += pc.SlowReads
	}
	if late != nil && o.Class == "" {
		late()
	}
	return o
}

func datasetExists(file, path string) bool {
	ds, _, ok := hdf5.Snapshot(file)
	if !ok {
		return false
	}
	for _, d := range ds {
		if d.Path == path {
			return true
		}
	}
	return false
}

func compareDataset(file, path string, shape []int, vals []float64) error {
	ds, _, ok := hdf5.Snapshot(file)
	if !ok {
		return fmt.Errorf("file %s does not exist", file)
	}
	for _, d := range ds {
		if d.Path != path {
			continue
		}
		if d.Kind != reflect.Float64 {
			return fmt.Errorf("%s:%s has element type %v", file, path, d.Kind)
		}
		if !eqInts(d.Dims, shape) {
			return fmt.Errorf("%s:%s has extent %v, the reference says %v", file, path, d.Dims, shape)
		}
		for i := range vals {
			if !bitsEq(d.Floats[i], vals[i]) {
				row := 0
				if len(shape) > 0 && product(shape[1:]) > 0 {
					row = i / product(shape[1:])
				}
				return fmt.Errorf("%s:%s flat element %d (row %d) is %v, the sequential reference gives %v", file, path, i, row, d.Floats[i], vals[i])
			}
		}
		return nil
	}
	return fmt.Errorf("dataset %s:%s does not exist", file, path)
}

// engine "owsimsplit": hot-start continuity through the ow-sim tool chain (C06): the same model
// graph is simulated once for the whole period and once in two consecutive ow-sim runs, the second
// of which starts from the final-states file of the first (-final-states / -initial-states).
func init() { engines["owsimsplit"] = engineOwSimSplit }

func engineOwSimSplit(rc *RunCtx) *Outcome {
	o := &Outcome{}
	w := rc.W
	owPoolExclude = map[string]bool{"Sacramento": true, "DateGenerator": true}
	defer func() { owPoolExclude = map[string]bool{} }()
	c := drawOwCase(w)
	if c.T < 2 {
		c.T = 2 + w.Choose(10)
		for _, m := range c.models {
			for _, nd := range m.allNodes() {
				if nd.inputs != nil {
					nd.inputs = domains.GenInputs(w, m.name, nd.col, m.maxDim, c.T)
				}
			}
		}
	}
	cut := 1 + w.Choose(c.T-1)
	c.flags = owsim.VerifFlagSet{}
	c.preexisting = false
	ctl := hdf5.Reset()
	ctl.Tape = rc.S
	ctl.Monitor = true
	ctl.Latency = w.Bool(50)
	var names []string
	for _, m := range c.models {
		names = append(names, fmt.Sprintf("%s%v", m.name, m.batches))
	}
	o.Sample = map[string]interface{}{"models_with_batches": names, "generations": c.G, "timesteps": c.T, "cut_after": cut, "links": len(c.links)}
	build := func(in string, t0, t1 int) {
		c.in, c.paramFile, c.stateFile, c.tsFile = in, in, in, in
		c.t0, c.t1 = t0, t1
		c.buildFiles()
	}
	build("/sim/full.h5", 0, c.T)
	build("/sim/first.h5", 0, cut)
	build("/sim/second.h5", cut, c.T)
	// the first part may be run without the time series of some models (-no-outputs-for /
	// -no-inputs-for): what the second part starts from is the final states, which are always due
	firstFlags := owsim.VerifFlagSet{FinalStates: "/sim/states-after-first.h5", Verbose: w.Bool(25)}
	skipFirst := map[string]bool{}
	if w.Bool(40) {
		var noOut, noIn []string
		for _, m := range c.models {
			if w.Bool(50) {
				noOut = append(noOut, m.name)
				skipFirst[m.name] = true
			}
			if w.Bool(30) {
				noIn = append(noIn, m.name)
			}
		}
		firstFlags.NoOutputsFor = strings.Join(noOut, ",")
		firstFlags.NoInputsFor = strings.Join(noIn, ",")
		o.Sample.(map[string]interface{})["first_part_flags"] = fmt.Sprintf("-no-outputs-for %q -no-inputs-for %q", firstFlags.NoOutputsFor, firstFlags.NoInputsFor)
		if len(noOut) > 0 {
			o.probe("owsim_hot_start_first_part_without_time_series_of_some_models")
		}
	}
	s := simrt.Run(rc.T, simrt.Config{DeepPct: 10, MaxSimTime: 1000 * time.Hour}, rc.S, func() {
		owsim.VerifSetFlags(owsim.VerifFlagSet{})
		owsim.VerifRunSimulation([]string{"/sim/full.h5", "/sim/out-full.h5"})
		owsim.VerifSetFlags(firstFlags)
		owsim.VerifRunSimulation([]string{"/sim/first.h5", "/sim/out-first.h5"})
		owsim.VerifSetFlags(owsim.VerifFlagSet{InitialStates: "/sim/states-after-first.h5"})
		owsim.VerifRunSimulation([]string{"/sim/second.h5", "/sim/out-second.h5"})
	})
	o.Sim = s
	o.Nontrivial = s.Stats.Picks > 0
	o.fault("crash+restart via ow-sim -final-states/-initial-states files")
	switch s.Outcome {
	case "":
	case "crash":
		o.fail("process-crash", "owsim-hotstart/crash@"+crashSite(s.Crash.Stack), "ow-sim panicked during the hot-start sequence: %s\n%s", s.Crash.Value, s.Crash.Stack)
		return o
	case "exit":
		o.fail("unexpected-exit", "owsim-hotstart/exit", "ow-sim called os.Exit(%d) during the hot-start sequence (at %s); cut after %d of %d steps", *s.ExitCode, s.ExitSite, cut, c.T)
		return o
	default:
		o.fail("no-progress", "owsim-hotstart/"+s.Outcome, "%s; tasks: %v", s.Outcome, s.Blocked)
		return o
	}
	get := func(file, path string) *hdf5.DatasetCopy {
		ds, _, ok := hdf5.Snapshot(file)
		if !ok {
			return nil
		}
		for i := range ds {
			if ds[i].Path == path {
				return &ds[i]
			}
		}
		return nil
	}
	for _, m := range c.models {
		if m.total == 0 {
			continue
		}
		tol := tolFor(m.name)
		base := "/MODELS/" + m.name
		full, first, second := get("/sim/out-full.h5", base+"/outputs"), get("/sim/out-first.h5", base+"/outputs"), get("/sim/out-second.h5", base+"/outputs")
		if full == nil || (first == nil && !skipFirst[m.name]) || second == nil {
			o.fail("split-output-differs", "owsim-hotstart/"+m.name, "%s: an outputs dataset is missing in one of the three ow-sim runs", m.name)
			return o
		}
		nOut := len(m.desc.Outputs)
		for r := 0; r < m.total; r++ {
			for k := 0; k < nOut; k++ {
				for t := 0; t < c.T; t++ {
					e := full.Floats[(r*nOut+k)*c.T+t]
					var g float64
					if t < cut {
						if skipFirst[m.name] {
							continue
						}
						g = first.Floats[(r*nOut+k)*cut+t]
					} else {
						g = second.Floats[(r*nOut+k)*(c.T-cut)+t-cut]
					}
					o.Checks++
					if !closeRel(g, e, tol) {
						o.fail("split-output-differs", "owsim-hotstart/"+m.name, "%s node %d output %s[%d] = %v when ow-sim runs the period in two parts (cut after step %d, second part started with -initial-states from the first part's -final-states file), %v in one run", m.name, r, m.desc.Outputs[k], t, g, cut, e)
						return o
					}
				}
			}
		}
		fs, ss := get("/sim/out-full.h5", base+"/states"), get("/sim/out-second.h5", base+"/states")
		if fs == nil || ss == nil || len(fs.Floats) != len(ss.Floats) {
			o.fail("split-state-differs", "owsim-hotstart/"+m.name, "%s: final states datasets missing or of different extent", m.name)
			return o
		}
		for i := range fs.Floats {
			o.Checks++
			if !closeRel(ss.Floats[i], fs.Floats[i], tol) {
				o.fail("split-state-differs", "owsim-hotstart/"+m.name, "%s final state element %d = %v after the two-part ow-sim run, %v in one run", m.name, i, ss.Floats[i], fs.Floats[i])
				return o
			}
		}
	}
	o.probe("owsim_hot_start_through_state_files")
	return o
}
