package driver

import (
	"math"
	"os"

	"github.com/flowmatters/openwater-core/data"
	"github.com/flowmatters/openwater-core/sim"
	"verif/domains"
	"verif/simrt"
)

// engine "cells": C04 (vectorised Run == independent one-cell runs, exact footprint) and C05
// (the same under K seeded schedules, and under the race detector in the -race binary).

func init() {
	engines["cells"] = engineCells
}

func gcd(a, b int) int {
	for b != 0 {
		a, b = b, a%b
	}
	return a
}

// setCount maps a choice to a number of parameter sets / input blocks for n cells:
// 0: one (broadcast), 1: n, 2: a value coprime with n and smaller (if any), 3: n+1
func setCount(choice, n int) int {
	switch choice {
	case 0:
		return 1
	case 1:
		return n
	case 2:
		for k := n - 1; k >= 2; k-- {
			if gcd(k, n) == 1 {
				return k
			}
		}
		return 1
	}
	return n + 1
}

// models whose valid input range depends on the cell's own parameters: input blocks and
// parameter sets must then be paired consistently (cell i uses set i%P and block i%I).
var inputsDependOnParams = map[string]bool{"RatingCurvePartition": true}

const sentinel = -7777.25

type cellCase struct {
	Model                string
	N, P, I, T           int
	MaxDim               int
	CIn, CSt, COut, CPar bool
	DN, DO, DT           int
	Warm                 bool
	Arbitrary            bool // state rows hold arbitrary small non-negative values
	Snapped              bool // some inputs sit exactly on table knots / thresholds
	Mixed                bool // cells differ in state-vector width (zero-padded rows)
	NearEqual            bool // sibling whose parameters differ from its twin's by a few parts in 10^9
	WidestFirst          bool // cell 0 has the widest state vector (what InitialiseStates supports)
	TinyInputs           bool // zeros replaced by -0, denormals and tiny positive values
	MissingData          bool // one input series is NaN from some timestep on (stateless scalar models only)
	ForeignX4            bool // GR4J states produced under another X4 (store lengths differ from the parameter's)
	own                  []int
	cols                 [][]float64
	inBlocks             [][][]float64 // [block][input][t]
	stateRows            [][]float64
	refOut, refFin       [][]float64
	desc                 sim.ModelDescription
}

func (c *cellCase) sample() map[string]interface{} {
	return map[string]interface{}{"model": c.Model, "cells": c.N, "param_sets": c.P, "input_blocks": c.I, "timesteps": c.T,
		"table_dim": c.MaxDim, "c_backed": map[string]bool{"inputs": c.CIn, "states": c.CSt, "outputs": c.COut, "params": c.CPar},
		"oversize": []int{c.DN, c.DO, c.DT}, "warm_states": c.Warm, "arbitrary_states": c.Arbitrary}
}

func drawCellCase(w *simrt.Tape, maxCells, maxT int) *cellCase {
	c := &cellCase{}
	c.Model = pickModel(w)
	c.desc = sim.Catalog[c.Model]().Description()
	c.N = sizeDraw(w, maxCells, 3*maxCells+1)
	c.P = setCount(w.Choose(4), c.N)
	c.I = setCount(w.Choose(4), c.N)
	if inputsDependOnParams[c.Model] && c.P != 1 {
		c.I = c.P
	}
	c.T = sizeDraw(w, maxT, 4*maxT+3)
	c.CIn, c.CSt, c.COut, c.CPar = w.Bool(25), w.Bool(25), w.Bool(25), w.Bool(25)
	over := []int{0, 0, 0, 1, 2}
	c.DN, c.DO, c.DT = over[w.Choose(5)], over[w.Choose(5)], over[w.Choose(5)]
	c.Warm = w.Bool(50)
	if os.Getenv("VERIF_FORCE_C") != "" {
		c.CIn, c.CSt, c.COut, c.CPar = true, true, true, true
	}
	c.cols, c.MaxDim = drawColumns(w, c.Model, c.P)
	for b := 0; b < c.I; b++ {
		blk := domains.GenInputs(w, c.Model, c.cols[b%c.P], c.MaxDim, c.T)
		if c.I == c.P || c.P == 1 {
			// the block is used with one parameter column only (or all columns are the same):
			// values may be snapped onto that column's knots and thresholds
			if snapCoincidences(w, c.Model, c.desc, c.cols[b%c.P], c.MaxDim, blk) {
				c.Snapped = true
			}
		}
		if w.Choose(10) == 9 {
			// zeros of either sign and values next to zero (the tail of a recession, a denormal) where
			// the series has zeros: all of them valid "nothing" values
			for _, ser := range blk {
				for t, v := range ser {
					if v == 0 {
						ser[t] = []float64{0, math.Copysign(0, -1), 1e-9, 5e-324, 1e-12}[w.Choose(5)]
					}
				}
			}
			c.TinyInputs = true
		}
		c.inBlocks = append(c.inBlocks, blk)
	}
	if len(c.desc.States) == 0 && c.MaxDim == 0 && len(c.desc.Inputs) > 0 && c.T > 0 && w.Choose(10) == 9 {
		// missing data: one forcing series is NaN from some timestep to the end (a gauge that stopped
		// reporting), in every input block or in the first only.  Only for models without states and
		// tables, whose kernels are straight arithmetic: there a NaN can do nothing but propagate
		// (iterative solvers and table look-ups may legitimately refuse one).  Several cells then end
		// in NaN, which is as valid a result as any and must be the same bits on every schedule
		x, from, all := w.Choose(len(c.desc.Inputs)), w.Choose(c.T), w.Bool(60)
		for b, blk := range c.inBlocks {
			if all || b == 0 {
				for t := from; t < len(blk[x]); t++ {
					blk[x][t] = math.NaN()
				}
			}
		}
		c.MissingData = true
	}
	for i := 0; i < c.N; i++ {
		col := c.cols[i%c.P]
		row := initialStateRow(c.Model, c.desc, col, c.MaxDim)
		if c.Warm && len(row) > 0 {
			wt := 1 + w.Choose(6)
			wcol := col
			if c.Model == "GR4J" && w.Bool(35) {
				// a hot start after re-calibration: the carried states were produced under another
				// X4, so the store lengths recorded in the state vector differ from ceil(X4)
				wcol = cloneF(col)
				// (only towards longer stores: the kernel indexes its unit hydrographs by the recorded
				// lengths and does not survive stores that are shorter than X4 needs)
				x4 := col[paramIndex(c.desc, "X4")]
				wcol[paramIndex(c.desc, "X4")] = x4 + float64(w.Choose(int((4.0-x4)*10)+1))/10
				row = initialStateRow(c.Model, c.desc, wcol, c.MaxDim)
				c.ForeignX4 = true
			}
			_, row = refRun(c.Model, c.desc, wcol, c.MaxDim, row, domains.GenInputs(w, c.Model, wcol, c.MaxDim, wt), wt)
		}
		if !c.Warm && arbitraryStatesOK(c.Model) && w.Bool(35) {
			// any state values, not only those the model itself produces (the properties
			// quantify over all state values): small non-negative numbers
			c.Arbitrary = true
			for j := range row {
				row[j] = float64(w.Choose(60)) / 8
			}
		}
		c.stateRows = append(c.stateRows, row)
	}
	c.padRows()
	return c
}

// padRows pads every state row with zeros to the width of cell 0 (the widest) and remembers the
// cells' own widths.
func (c *cellCase) padRows() {
	c.own = c.own[:0]
	w0 := 0
	for _, r := range c.stateRows {
		if len(r) > w0 {
			w0 = len(r)
		}
	}
	c.WidestFirst = len(c.stateRows[0]) == w0
	for i, r := range c.stateRows {
		c.own = append(c.own, len(r))
		if len(r) < w0 {
			c.Mixed = true
			c.stateRows[i] = append(cloneF(r), make([]float64, w0-len(r))...)
		}
	}
}

func (c *cellCase) reference() {
	for i := 0; i < c.N; i++ {
		o, f := refRun(c.Model, c.desc, c.cols[i%c.P], c.MaxDim, c.stateRows[i][:c.own[i]], c.inBlocks[i%c.I], c.T)
		c.refOut = append(c.refOut, o)
		c.refFin = append(c.refFin, f)
	}
}

func engineCells(rc *RunCtx) *Outcome {
	o := &Outcome{}
	maxCells, maxT, K := 6, 24, 1
	if rc.Prop == "C05" {
		K = 4
		if rc.Tier == "thorough" {
			K = 8
		}
	}
	if rc.W.Choose(150) == 149 {
		return bigVectorisedRun(rc)
	}
	c := drawCellCase(rc.W, maxCells, maxT)
	width := len(c.stateRows[0])
	c.reference()
	o.Sample = c.sample()
	// a re-calibrated model: in a fifth of the cases the model object is first given other parameter
	// values through the SAME matrix object, the matrix is then overwritten in place with the values
	// of this case and applied again (what a calibration loop does); half of the Go-backed matrices
	// are a column window of a wider table
	reparam := rc.W.Bool(20)
	windowed := reparam && !c.CPar && rc.W.Bool(50)
	redim := reparam && rc.W.Bool(40)
	windowedIn := !c.CIn && c.T > 0 && rc.W.Choose(8) == 7
	var altCols [][]float64
	if reparam {
		for j := 0; j < c.P; j++ {
			force := 0
			if j == 0 && c.MaxDim > 0 {
				force = c.MaxDim
			}
			ac := domains.GenParams(rc.W, c.Model, c.MaxDim, force)
			domains.ForceStateWidthClass(c.Model, ac, domains.StateWidthClass(c.Model, c.cols[j]))
			altCols = append(altCols, ac)
		}
		o.Sample.(map[string]interface{})["parameters_reapplied_in_place"] = map[string]bool{"window_of_wider_table": windowed}
	}
	nIn, nOut := len(c.desc.Inputs), len(c.desc.Outputs)

	for k := 0; k < K; k++ {
		// fresh arrays and a fresh model object per schedule
		var params data.ND2Float64
		if windowed {
			rows := len(c.cols[0])
			wide := mk2(false, rows, c.P+2, make([]float64, rows*(c.P+2)))
			params = wide.Slice([]int{0, 1}, []int{rows, c.P}, nil).(data.ND2Float64)
			for j, col := range c.cols {
				for i := range col {
					params.Set2(i, j, col[i])
				}
			}
		} else {
			params = paramMatrix(c.CPar, c.cols)
		}
		paramSnap := flat2(params)
		iv := make([]float64, c.I*nIn*c.T)
		for b := 0; b < c.I; b++ {
			for x := 0; x < nIn; x++ {
				copy(iv[(b*nIn+x)*c.T:], c.inBlocks[b][x])
			}
		}
		var inputs data.ND3Float64
		if windowedIn {
			// the inputs are a window of a wider array (two spare timesteps in front, one behind)
			wide := mk3(false, c.I, nIn, c.T+3, nil)
			inputs = wide.Slice([]int{0, 0, 2}, []int{c.I, nIn, c.T}, nil).(data.ND3Float64)
			for b := 0; b < c.I; b++ {
				for x := 0; x < nIn; x++ {
					for t := 0; t < c.T; t++ {
						inputs.Set3(b, x, t, iv[(b*nIn+x)*c.T+t])
					}
				}
			}
			o.probe("inputs_are_a_window_of_a_wider_array")
		} else {
			inputs = mk3(c.CIn, c.I, nIn, c.T, iv)
		}
		sv := make([]float64, 0, c.N*width)
		for i := 0; i < c.N; i++ {
			sv = append(sv, c.stateRows[i]...)
		}
		states := mk2(c.CSt, c.N, width, sv)
		oN, oO, oT := c.N+c.DN, nOut+c.DO, c.T+c.DT
		ov := make([]float64, oN*oO*oT)
		for a := 0; a < oN; a++ {
			for b := 0; b < oO; b++ {
				for t := 0; t < oT; t++ {
					if a >= c.N || b >= nOut || t >= c.T {
						ov[(a*oO+b)*oT+t] = sentinel
					}
				}
			}
		}
		outputs := mk3(c.COut, oN, oO, oT, ov)
		var model sim.TimeSteppingModel
		var setupPanic interface{}
		func() {
			defer func() { setupPanic = recover() }()
			model = c.configure(rc, o, params, reparam, redim, altCols)
		}()
		if setupPanic != nil {
			o.fail("process-crash", c.Model+"/setup-crash", "%s: configuring the model object panicked (re-calibrated: %v, re-dimensioned: %v): %v", c.Model, reparam, redim && c.MaxDim > 0, setupPanic)
			return o
		}
		if k == 0 && !c.Warm && !c.Arbitrary && c.WidestFirst {
			// state initialisation per cell: InitialiseStates(N) of the vectorised model must give
			// each cell the initial states of that cell alone (parameter sets repeat cyclically)
			var initAll []float64
			var initW int
			func() {
				defer func() {
					if r := recover(); r != nil {
						o.fail("initialise-states-panics", c.Model+"/init-states", "%s: InitialiseStates(%d) with %d parameter sets panicked: %v", c.Model, c.N, c.P, r)
					}
				}()
				st := model.InitialiseStates(c.N)
				initAll, initW = flat2(st), st.Len(1)
			}()
			if o.Class != "" {
				return o
			}
			if initW != width {
				o.fail("initial-states-differ", c.Model+"/init-states", "%s: InitialiseStates(%d) returns %d states per cell, a single cell has %d", c.Model, c.N, initW, width)
				return o
			}
			for i := 0; i < c.N; i++ {
				for j := 0; j < width; j++ {
					o.Checks++
					if g, e := initAll[i*width+j], c.stateRows[i][j]; !bitsEq(g, e) { // padded rows: zeros beyond the cell's own width
						o.fail("initial-states-differ", c.Model+"/init-states", "%s: InitialiseStates(%d)[cell %d][%d] = %v, the cell alone (parameter set %d of %d) gets %v", c.Model, c.N, i, j, g, i%c.P, c.P, e)
						return o
					}
				}
			}
			o.probe("initialise_states_vectorised")
		}
		s := simrt.Run(rc.T, simrt.Config{TraceCap: 0, DeepPct: 20}, rc.S, func() {
			model.Run(inputs, states, outputs)
		})
		o.Sim = s
		if s.Stats.Picks > 0 && c.N >= 2 {
			o.Nontrivial = true
		}
		if s.Stats.MaxEligible >= 3 {
			o.probe("three_or_more_cells_mid_body")
		}
		if s.Stats.Preemptions > 0 {
			o.probe("cell_preempted_mid_body")
		}
		switch s.Outcome {
		case "":
		case "crash":
			o.fail("process-crash", c.Model+"/crash", "%s: panic in task %s at %s: %s\n%s", c.Model, s.Crash.Task, s.Crash.Site, s.Crash.Value, s.Crash.Stack)
			return o
		default:
			o.fail("no-termination", c.Model+"/"+s.Outcome, "%s: Run did not return (%s); blocked: %v", c.Model, s.Outcome, s.Blocked)
			return o
		}
		// differential oracle, bit patterns
		got := flat3(outputs)
		gotSt := flat2(states)
		for i := 0; i < c.N; i++ {
			for b := 0; b < nOut; b++ {
				for t := 0; t < c.T; t++ {
					o.Checks++
					g, e := got[(i*oO+b)*oT+t], c.refOut[i][b*c.T+t]
					if !bitsEq(g, e) {
						o.fail("cell-output-differs", c.Model+"/output", "%s: cell %d output %s[%d] = %v, one-cell run gives %v (cells=%d sets=%d blocks=%d T=%d schedule %d/%d)",
							c.Model, i, c.desc.Outputs[b], t, g, e, c.N, c.P, c.I, c.T, k+1, K)
						return o
					}
				}
			}
			for j := 0; j < width; j++ {
				o.Checks++
				g, e := gotSt[i*width+j], 0.0
				if j < c.own[i] {
					e = c.refFin[i][j]
				}
				if !bitsEq(g, e) {
					o.fail("cell-state-differs", c.Model+"/state", "%s: cell %d final state[%d] = %v, one-cell run gives %v (cells=%d sets=%d blocks=%d T=%d schedule %d/%d)",
						c.Model, i, j, g, e, c.N, c.P, c.I, c.T, k+1, K)
					return o
				}
			}
		}
		// footprint
		for a := 0; a < oN; a++ {
			for b := 0; b < oO; b++ {
				for t := 0; t < oT; t++ {
					if a >= c.N || b >= nOut || t >= c.T {
						o.Checks++
						if v := got[(a*oO+b)*oT+t]; !bitsEq(v, sentinel) {
							o.fail("write-outside-footprint", c.Model+"/footprint", "%s: output[%d,%d,%d] outside the run's cells/outputs/timesteps was overwritten with %v", c.Model, a, b, t, v)
							return o
						}
					}
				}
			}
		}
		// "touches nothing else" includes the arrays' own descriptions: a caller that reuses an
		// argument object for a later run must find it with the extents it had
		for _, sh := range []struct {
			name string
			got  []int
			want []int
		}{{"inputs", inputs.Shape(), []int{c.I, nIn, c.T}}, {"parameters", params.Shape(), []int{len(c.cols[0]), c.P}},
			{"states", states.Shape(), []int{c.N, width}}, {"outputs", outputs.Shape(), []int{oN, oO, oT}}} {
			if !eqInts(sh.got, sh.want) {
				o.fail("argument-shape-changed", c.Model+"/shape", "%s: after Run the %s array reports shape %v, it was %v", c.Model, sh.name, sh.got, sh.want)
				return o
			}
		}
		if j := bitsEqSlice(flat3(inputs), iv); j >= 0 {
			o.fail("inputs-modified", c.Model+"/inputs", "%s: Run modified its inputs at flat index %d", c.Model, j)
			return o
		}
		if j := bitsEqSlice(flat2(params), paramSnap); j >= 0 {
			o.fail("parameters-modified", c.Model+"/params", "%s: Run modified its parameters at flat index %d", c.Model, j)
			return o
		}
	}
	if c.P != 1 && c.P != c.N {
		o.probe("param_sets_not_1_or_N")
	}
	if c.I != 1 && c.I != c.N {
		o.probe("input_blocks_not_1_or_N")
	}
	if c.DN+c.DO+c.DT > 0 {
		o.probe("oversized_output_array")
	}
	if c.CIn || c.CSt || c.COut || c.CPar {
		o.probe("c_backed_array")
	}
	if c.MaxDim > 0 {
		o.probe("dimensioned_model")
	}
	if c.Arbitrary {
		o.probe("arbitrary_state_values")
	}
	if c.Snapped {
		o.probe("inputs_exactly_on_knots_or_thresholds")
	}
	if c.MissingData {
		o.probe("forcing_series_ends_in_missing_data(NaN)")
	}
	if c.Mixed {
		o.probe("cells_with_different_state_widths(zero_padded_rows)")
	}
	if c.ForeignX4 {
		o.probe("gr4j_states_from_another_x4")
	}
	if c.MaxDim > 32 {
		o.probe("table_longer_than_32_rows")
	}
	return o
}

// arbitraryStatesOK: models whose state vector is a plain list of stores (no counters or
// lengths inside it, fixed width) tolerate arbitrary small non-negative state values.
func arbitraryStatesOK(model string) bool {
	switch model {
	case "GR4J", "Lag", "Storage":
		return false
	}
	return true
}

// drawSibling draws a second argument set for the same model and the same array shapes (cells,
// sets, blocks, timesteps, table size, back-ends) but other parameter and input values.
func drawSibling(w *simrt.Tape, a *cellCase) *cellCase {
	c := &cellCase{Model: a.Model, desc: a.desc, N: a.N, P: a.P, I: a.I, T: a.T, MaxDim: a.MaxDim,
		CIn: a.CIn, CSt: a.CSt, COut: a.COut, CPar: a.CPar}
	class := domains.StateWidthClass(a.Model, a.cols[0])
	if w.Bool(35) && len(a.cols[0]) > 0 {
		// a near-equal sibling: the same parameter sets except for one value that differs by a few
		// parts in 10^9 (two catchments calibrated to almost the same number): anything keyed on a
		// rounded parameter value confuses the two
		for j := 0; j < c.P; j++ {
			c.cols = append(c.cols, cloneF(a.cols[j]))
		}
		j, i := w.Choose(c.P), w.Choose(len(a.cols[0]))
		old := c.cols[j][i]
		if old != 0 && a.MaxDim == 0 {
			c.cols[j][i] = old * (1 + float64(1+w.Choose(30))*1e-9)
			if domains.StateWidthClass(c.Model, c.cols[j]) != domains.StateWidthClass(c.Model, a.cols[j]) {
				c.cols[j][i] = old
			} else {
				c.NearEqual = true
			}
		}
	} else {
		for j := 0; j < c.P; j++ {
			force := 0
			if j == 0 && c.MaxDim > 0 {
				force = c.MaxDim
			}
			col := domains.GenParams(w, c.Model, c.MaxDim, force)
			domains.ForceStateWidthClass(c.Model, col, class)
			c.cols = append(c.cols, col)
		}
	}
	for b := 0; b < c.I; b++ {
		blk := domains.GenInputs(w, c.Model, c.cols[b%c.P], c.MaxDim, c.T)
		if c.I == c.P || c.P == 1 {
			if snapCoincidences(w, c.Model, c.desc, c.cols[b%c.P], c.MaxDim, blk) {
				c.Snapped = true
			}
		}
		c.inBlocks = append(c.inBlocks, blk)
	}
	for i := 0; i < c.N; i++ {
		c.stateRows = append(c.stateRows, initialStateRow(c.Model, c.desc, c.cols[i%c.P], c.MaxDim))
	}
	c.padRows()
	return c
}

// bigVectorisedRun: one run in 150 is large - 256 to 2048 cells with a million or more
// cell-timesteps in total (where an implementation might start batching cells or chunking series),
// a cheap model, few parameter sets and input blocks, so that a handful of one-cell reference runs
// covers every cell.  The cell goroutines run on the real scheduler here.
func bigVectorisedRun(rc *RunCtx) *Outcome {
	o := &Outcome{}
	w := rc.W
	name := []string{"RunoffCoefficient", "GR4J", "Surm", "Simhyd", "Muskingum", "Sum", "Lag"}[w.Choose(7)]
	desc := sim.Catalog[name]().Description()
	N := []int{256, 512, 1000, 1024, 2048}[w.Choose(5)]
	T := (1 << 20) / N * (1 + w.Choose(2))
	if w.Choose(3) == 0 {
		T += 1 + w.Choose(5)
	}
	P := []int{1, 3}[w.Choose(2)]
	I := []int{1, 2}[w.Choose(2)]
	cols, maxDim := drawColumns(w, name, P)
	for j := 1; j < P; j++ {
		domains.ForceStateWidthClass(name, cols[j], domains.StateWidthClass(name, cols[0]))
	}
	var blocks [][][]float64
	for b := 0; b < I; b++ {
		blocks = append(blocks, domains.GenInputs(w, name, cols[b%P], maxDim, T))
	}
	nIn, nOut := len(desc.Inputs), len(desc.Outputs)
	o.Sample = map[string]interface{}{"model": name, "cells": N, "timesteps": T, "param_sets": P, "input_blocks": I, "large_run": true}
	rows := make([][]float64, P)
	for j := range rows {
		rows[j] = initialStateRow(name, desc, cols[j], maxDim)
	}
	width := len(rows[0])
	type ref struct{ out, fin []float64 }
	refs := map[[2]int]ref{}
	for i := 0; i < N && len(refs) < P*I; i++ {
		k := [2]int{i % P, i % I}
		if _, ok := refs[k]; !ok {
			ro, rf := refRun(name, desc, cols[k[0]], maxDim, rows[k[0]], blocks[k[1]], T)
			refs[k] = ref{ro, rf}
		}
	}
	iv := make([]float64, I*nIn*T)
	for b := 0; b < I; b++ {
		for x := 0; x < nIn; x++ {
			copy(iv[(b*nIn+x)*T:], blocks[b][x])
		}
	}
	sv := make([]float64, 0, N*width)
	for i := 0; i < N; i++ {
		sv = append(sv, rows[i%P]...)
	}
	inputs, states, outputs := mk3(false, I, nIn, T, iv), mk2(false, N, width, sv), mk3(false, N, nOut, T, nil)
	var escaped interface{}
	func() {
		defer func() { escaped = recover() }()
		setupModel(name, paramMatrix(false, cols)).Run(inputs, states, outputs)
	}()
	if escaped != nil {
		o.fail("process-crash", name+"/crash", "%s: a run of %d cells x %d timesteps panicked: %v", name, N, T, escaped)
		return o
	}
	for i := 0; i < N; i++ {
		r := refs[[2]int{i % P, i % I}]
		for b := 0; b < nOut; b++ {
			for t := 0; t < T; t++ {
				if g, e := outputs.Get3(i, b, t), r.out[b*T+t]; !bitsEq(g, e) {
					o.fail("cell-output-differs", name+"/output", "%s, %d cells x %d timesteps: cell %d output %s[%d] = %v, the cell alone gives %v", name, N, T, i, desc.Outputs[b], t, g, e)
					return o
				}
			}
		}
		for j := 0; j < width && j < len(r.fin); j++ {
			if g, e := states.Get2(i, j), r.fin[j]; !bitsEq(g, e) {
				o.fail("cell-state-differs", name+"/state", "%s, %d cells x %d timesteps: cell %d final state[%d] = %v, the cell alone gives %v", name, N, T, i, j, g, e)
				return o
			}
		}
		o.Checks += nOut*T + width
	}
	o.Nontrivial = true
	o.probe("vectorised_run_with_a_million_or_more_cell_timesteps")
	return o
}

// configure builds the model object of one vectorised run: fresh, re-calibrated through the same
// parameter matrix object, or re-dimensioned from a configuration with longer tables.
func (c *cellCase) configure(rc *RunCtx, o *Outcome, params data.ND2Float64, reparam, redim bool, altCols [][]float64) sim.TimeSteppingModel {
	var model sim.TimeSteppingModel
	if reparam && c.MaxDim > 0 && redim {
		// re-dimensioned: the object first holds a configuration with LONGER tables (its own matrix),
		// then goes through the whole protocol again with this case's matrix
		bigDim := c.MaxDim + 1 + rc.W.Choose(3)
		var bigCols [][]float64
		for j := 0; j < c.P; j++ {
			force := 0
			if j == 0 {
				force = bigDim
			}
			bigCols = append(bigCols, domains.GenParams(rc.W, c.Model, bigDim, force))
		}
		model = setupModel(c.Model, paramMatrix(false, bigCols))
		if dims := model.FindDimensions(params); len(dims) > 0 {
			model.InitialiseDimensions(dims)
		}
		model.ApplyParameters(params)
		o.probe("model_object_re-dimensioned_to_shorter_tables")
	} else if reparam {
		for j, col := range altCols {
			for i := range col {
				params.Set2(i, j, col[i])
			}
		}
		model = setupModel(c.Model, params)
		for j, col := range c.cols {
			for i := range col {
				params.Set2(i, j, col[i])
			}
		}
		model.ApplyParameters(params)
		o.probe("parameters_reapplied_through_the_same_matrix_object")
	} else {
		model = setupModel(c.Model, params)
	}
	return model
}
