package driver

import (
	"fmt"
	"math"
	"runtime/debug"
	"strings"
	"syscall"
	"unsafe"

	"github.com/flowmatters/openwater-core/data"
	"verif/simrt"
)

// engine "arrays": C01 (views and write footprints), C02 (bulk operations, contiguity, index
// helpers), C03 (C-backed arrays in lock-step with Go-backed ones, on guarded memory).
//
// A seeded history of view/read/write/bulk operations is applied in lock-step to a Go-backed
// and a C-backed root of the same shape and contents and to a reference model that keeps flat
// storage plus, per view, the explicit list of storage offsets it addresses (no stride algebra).
// After every operation the whole backing stores are compared with the reference store.

func init() { engines["arrays"] = engineArrays }

type refView struct {
	root    int   // index of the reference store
	offs    []int // storage offset of every element, row-major
	shape   []int
	depth   int
	stepped bool // this view or an ancestor was cut with a step > 1
	nested  bool // cut from a stepped view
	how     string
}

type arrRoot[T num, A arr[T, A]] struct {
	tail  int       // extra elements of the Go backing slice beyond the array
	store []float64 // reference storage
	goBuf []T       // backing slice of the Go root
	cb    *cbuf     // memory of the C root
	dims  []int
}

type arrView[T num, A arr[T, A]] struct {
	ref refView
	g   A
	c   A
	// the result of the last Unroll of this view when the view is scattered (then the result is a
	// snapshot that belongs to the caller), and the values it held
	snap     []T
	snapVals []float64
}

func rowMajorNext(idx, shape []int) {
	for d := len(shape) - 1; d >= 0; d-- {
		idx[d]++
		if idx[d] < shape[d] {
			return
		}
		idx[d] = 0
	}
}

func flatIndex(idx, shape []int) int {
	k := 0
	for d := range shape {
		k = k*shape[d] + idx[d]
	}
	return k
}

func isConsecutive(offs []int) bool {
	for i := 1; i < len(offs); i++ {
		if offs[i] != offs[i-1]+1 {
			return false
		}
	}
	return true
}

// relevant reports whether a failure class of the given family counts for the property.
func relevant(prop, family string) bool {
	switch prop {
	case "C01":
		// both storage back-ends are in C01's and C02's quantifiers: a failure that only the
		// C-backed array shows ("cdiff:<family>") counts for them too
		return family == "view" || family == "write" || family == "cdiff:view" || family == "cdiff:write"
	case "C02":
		// Apply, ApplySlice and CopyFrom have contiguous fast paths: both properties name them
		return family == "bulk" || family == "write" || family == "cdiff:bulk" || family == "cdiff:write"
	case "C03":
		return strings.HasPrefix(family, "cdiff")
	}
	return true
}

type arrCtx struct {
	rc      *RunCtx
	o       *Outcome
	log     []string
	aborted bool
}

func (x *arrCtx) fail(family, class, key, format string, a ...interface{}) {
	if x.aborted {
		return
	}
	x.aborted = true
	if !relevant(x.rc.Prop, family) {
		x.o.probe("history_stopped_by_a_failure_that_belongs_to_another_property")
		return
	}
	msg := fmt.Sprintf(format, a...)
	x.o.fail(class, key, "%s\nhistory: %s", msg, strings.Join(x.log, "; "))
}

func engineArrays(rc *RunCtx) *Outcome {
	o := &Outcome{}
	ti := rc.W.Choose(numKits)
	switch ti {
	case 0:
		arraysRun(kitFloat64, rc, o)
	case 1:
		arraysRun(kitFloat32, rc, o)
	case 2:
		arraysRun(kitInt32, rc, o)
	case 3:
		arraysRun(kitUint32, rc, o)
	case 4:
		arraysRun(kitInt64, rc, o)
	case 5:
		arraysRun(kitUint64, rc, o)
	case 6:
		arraysRun(kitInt, rc, o)
	case 7:
		arraysRun(kitUint, rc, o)
	}
	return o
}

func arraysRun[T num, A arr[T, A]](k kit[T, A], rc *RunCtx, o *Outcome) {
	w := rc.W
	x := &arrCtx{rc: rc, o: o}
	next := 1.0
	floatKit := isFloatKit[T]()
	uniq := func() float64 {
		if floatKit && w.Choose(14) == 13 {
			// signed zeros: equal under ==, different bit patterns
			if w.Bool(50) {
				return math.Copysign(0, -1)
			}
			return 0
		}
		next++
		return next
	}
	var roots []*arrRoot[T, A]
	var views []*arrView[T, A]
	guardBefore := w.Bool(30)

	newRoot := func() *arrView[T, A] {
		rank := sizeDraw(w, 4, 11) // 1-4 axes as a rule, 5-11 in one root of sixteen
		dims := make([]int, rank)
		for d := range dims {
			dims[d] = sizeDraw(w, 6, 17)
			if rank > 4 && dims[d] > 5 {
				dims[d] = 1 + dims[d]%5
			}
			if rank > 5 && dims[d] > 3 {
				dims[d] = 1 + dims[d]%3
			}
			if rank > 7 && dims[d] > 2 {
				dims[d] = 1 + dims[d]%2
			}
			if w.Choose(8) == 7 {
				dims[d] = 1
			}
		}
		n := product(dims)
		r := &arrRoot[T, A]{dims: dims, store: make([]float64, n), goBuf: make([]T, n)}
		if w.Bool(30) {
			// the caller's backing slice is longer than the array needs (ArrayFromSlice over a
			// bigger buffer): the tail is not part of the array and must never be touched or exposed
			r.tail = 1 + w.Choose(7)
			r.goBuf = make([]T, n+r.tail)
			for i := 0; i < r.tail; i++ {
				r.goBuf[n+i] = T(99)
			}
			o.probe("go_root_over_an_oversized_backing_slice")
		}
		r.cb = allocC(n*k.cSize, true, guardBefore)
		for i := 0; i < n; i++ {
			v := uniq()
			r.store[i] = v
			r.goBuf[i] = T(v)
			k.cSet(r.cb, i, v)
		}
		roots = append(roots, r)
		offs := make([]int, n)
		for i := range offs {
			offs[i] = i
		}
		v := &arrView[T, A]{ref: refView{root: len(roots) - 1, offs: offs, shape: dims, how: fmt.Sprintf("root%v", dims)},
			g: k.fromSlice(r.goBuf, dims), c: k.newC(r.cb.ptr, dims)}
		views = append(views, v)
		return v
	}

	// whole-store comparison: exact footprints on both back-ends, canaries intact
	checkStores := func(after string, fam ...string) {
		family := "view"
		if len(fam) > 0 {
			family = fam[0]
		}
		for ri, r := range roots {
			for i, e := range r.store {
				if !sameVal(r.goBuf[i], e) {
					x.fail(family, "storage-differs", "go/storage", "after %s: Go-backed storage of root %d element %d is %v, the reference has %v (a write touched the wrong element)", after, ri, i, r.goBuf[i], e)
					return
				}
				if !sameBits(k, k.cGet(r.cb, i), e) {
					if float64(r.goBuf[i]) == e {
						x.fail("cdiff:"+family, "c-storage-differs", "c/storage", "after %s: C buffer of root %d element %d is %v, the Go-backed array and the reference have %v", after, ri, i, k.cGet(r.cb, i), e)
					} else {
						x.fail(family, "storage-differs", "c/storage", "after %s: C buffer of root %d element %d is %v, reference %v", after, ri, i, k.cGet(r.cb, i), e)
					}
					return
				}
			}
			for i := 0; i < r.tail; i++ {
				if r.goBuf[len(r.store)+i] != T(99) {
					x.fail(family, "write-outside-array", "go/tail", "after %s: element %d of the Go backing slice, beyond the array of root %d, was overwritten with %v", after, len(r.store)+i, ri, r.goBuf[len(r.store)+i])
					return
				}
			}
			if off, ok := r.cb.canaryIntact(); !ok {
				x.fail("cdiff:"+family, "write-outside-buffer", "c/canary", "after %s: the slack next to the C buffer of root %d was overwritten at byte offset %d relative to the buffer", after, ri, off)
				return
			}
		}
	}

	pickView := func() *arrView[T, A] { return views[w.Choose(len(views))] }
	// draw an in-bounds multi-index of a view
	drawIdx := func(shape []int) []int {
		idx := make([]int, len(shape))
		for d := range idx {
			idx[d] = w.Choose(shape[d])
		}
		return idx
	}
	// both back-ends must return the reference value
	expect := func(what string, family string, ref float64, g, c T) {
		if !sameVal(g, ref) {
			x.fail(family, "read-differs", "go/"+opName(what), "%s: the Go-backed array returned %v, the reference says %v", what, g, ref)
			return
		}
		if !sameVal(c, ref) {
			x.fail("cdiff:"+family, "c-read-differs", "c/"+opName(what), "%s: the C-backed array returned %v, the Go-backed one and the reference %v", what, c, ref)
		}
	}
	// call f on the Go view and the C view; a panic in an in-bounds operation is a violation
	both := func(what, family string, v *arrView[T, A], f func(a A)) {
		func() {
			defer func() {
				if r := recover(); r != nil {
					x.fail(family, "panic", "go/panic/"+opName(what), "%s panicked on the Go-backed array: %v\n%s", what, r, trimStackStr(string(debug.Stack())))
				}
			}()
			f(v.g)
		}()
		if x.aborted {
			return
		}
		func() {
			defer func() {
				if r := recover(); r != nil {
					x.fail("cdiff:"+family, "c-panic-or-fault", "c/panic/"+opName(what), "%s panicked or faulted on the C-backed array (out-of-buffer access hits the guard page): %v\n%s", what, r, trimStackStr(string(debug.Stack())))
				}
			}()
			f(v.c)
		}()
	}

	old := debug.SetPanicOnFault(true)
	defer debug.SetPanicOnFault(old)

	newRoot()
	if w.Bool(40) {
		newRoot()
	}
	nOps := 15 + w.Choose(46)
	o.Sample = map[string]interface{}{"element_type": k.name, "operations": nOps, "guard_page": map[bool]string{false: "after", true: "before"}[guardBefore]}

	for op := 0; op < nOps && !x.aborted; op++ {
		kind := w.Choose(20)
		v := pickView()
		rv := &v.ref
		r := roots[rv.root]
		n := len(rv.offs)
		switch {
		case kind <= 3 && len(views) < 12 && rv.depth < 4: // Slice
			rank := len(rv.shape)
			loc, dims, step := make([]int, rank), make([]int, rank), make([]int, rank)
			anyStep := false
			zeroStep := false
			for d := 0; d < rank; d++ {
				step[d] = 1
				if w.Bool(35) {
					step[d] = 2 + w.Choose(2)
				}
				loc[d] = w.Choose(rv.shape[d])
				maxN := (rv.shape[d]-1-loc[d])/step[d] + 1
				dims[d] = 1 + w.Choose(maxN)
				if step[d] > 1 {
					anyStep = true
				}
				if dims[d] == 1 && w.Choose(10) == 9 {
					// a step of 0 on a 1-wide dimension, as the generated model wrappers pass it
					step[d] = 0
					zeroStep = true
				}
			}
			var stepArg []int = step
			if !anyStep && !zeroStep && w.Bool(50) {
				stepArg = nil
			}
			if zeroStep {
				o.probe("slice_with_step_0_on_1-wide_dimension")
			}
			child := refView{root: rv.root, shape: dims, depth: rv.depth + 1, stepped: rv.stepped || anyStep, nested: rv.stepped,
				how: fmt.Sprintf("%s.Slice(%v,%v,%v)", rv.how, loc, dims, stepArg)}
			idx := make([]int, rank)
			pidx := make([]int, rank)
			for i := 0; i < product(dims); i++ {
				for d := 0; d < rank; d++ {
					pidx[d] = loc[d] + idx[d]*step[d]
				}
				child.offs = append(child.offs, rv.offs[flatIndex(pidx, rv.shape)])
				rowMajorNext(idx, dims)
			}
			x.log = append(x.log, child.how)
			nv := &arrView[T, A]{ref: child}
			both(child.how, "view", v, func(a A) {
				// the same call on both back-ends; remember the results
				// the caller's location and step vectors are scratch buffers that it reuses after the
				// call (the generated model wrappers do exactly that with their position vectors): a
				// view must not keep referring to them.  (The extent vector is kept by the library
				// by design - NdArrayCommon.SliceInto stores it - and is therefore left alone.)
				la, sa := append([]int(nil), loc...), cloneInts(stepArg)
				res := a.Slice(la, append([]int(nil), dims...), sa)
				for i := range la {
					la[i] = 1000003 + i
				}
				for i := range sa {
					sa[i] = 7 + i
				}
				if any(a) == any(v.g) {
					nv.g = res
				} else {
					nv.c = res
				}
			})
			if x.aborted {
				break
			}
			views = append(views, nv)
			if child.nested {
				o.probe("slice_of_a_stepped_view")
			}
			if child.depth >= 3 {
				o.probe("slice_chain_depth>=3")
			}
			// read every element of the new view through Get (the definition of a view)
			idx = make([]int, rank)
			for i := 0; i < len(child.offs) && !x.aborted; i++ {
				var gv, cv T
				what := fmt.Sprintf("%s.Get(%v)", child.how, idx)
				both(what, "view", nv, func(a A) {
					if any(a) == any(nv.g) {
						gv = a.Get(idx)
					} else {
						cv = a.Get(idx)
					}
				})
				if !x.aborted {
					expect(what, "view", r.store[child.offs[i]], gv, cv)
				}
				rowMajorNext(idx, dims)
				o.Checks++
			}
		case kind <= 5: // Get / Set one element
			idx := drawIdx(rv.shape)
			off := rv.offs[flatIndex(idx, rv.shape)]
			if big := singleLongDim(rv.shape); big >= 0 && len(rv.shape) > 1 && w.Bool(50) {
				// Get1 on an n-D view that is a series (exactly one dimension longer than 1):
				// the model wrappers read parameter and input series this way
				i := w.Choose(rv.shape[big])
				sidx := make([]int, len(rv.shape))
				sidx[big] = i
				if big == 0 && w.Bool(40) {
					// the same series written through the one-index helpers (an [n,1] or [n,1,1]
					// column used as a series)
					val := uniq()
					what := fmt.Sprintf("%s.Set1(%d,%v) then Apply1 on an n-D series view", rv.how, i, val)
					x.log = append(x.log, what)
					l := w.Choose(rv.shape[0])
					cnt := 1 + w.Choose(rv.shape[0]-l)
					vals := make([]T, cnt)
					r.store[rv.offs[flatIndex(sidx, rv.shape)]] = val
					lidx := make([]int, len(rv.shape))
					for j := range vals {
						nvv := uniq()
						vals[j] = T(nvv)
						lidx[0] = l + j
						r.store[rv.offs[flatIndex(lidx, rv.shape)]] = nvv
					}
					both(what, "write", v, func(a A) {
						any(a).(interface{ Set1(int, T) }).Set1(i, T(val))
						any(a).(interface{ Apply1(int, int, []T) }).Apply1(l, 1, append([]T(nil), vals...))
					})
					if !x.aborted {
						checkStores(what, "write")
					}
					o.probe("Set1_Apply1_on_nD_series_view")
					break
				}
				var gv, cv T
				what := fmt.Sprintf("%s.Get1(%d)", rv.how, i)
				x.log = append(x.log, what)
				both(what, "view", v, func(a A) {
					a1 := any(a).(interface{ Get1(int) T })
					if any(a) == any(v.g) {
						gv = a1.Get1(i)
					} else {
						cv = a1.Get1(i)
					}
				})
				if !x.aborted {
					expect(what, "view", r.store[rv.offs[flatIndex(sidx, rv.shape)]], gv, cv)
				}
				o.probe("Get1_on_nD_series_view")
				break
			}
			if w.Bool(50) {
				var gv, cv T
				what := fmt.Sprintf("%s.Get(%v)", rv.how, idx)
				x.log = append(x.log, what)
				both(what, "view", v, func(a A) {
					if any(a) == any(v.g) {
						gv = a.Get(idx)
					} else {
						cv = a.Get(idx)
					}
				})
				if !x.aborted {
					expect(what, "view", r.store[off], gv, cv)
				}
			} else {
				val := uniq()
				what := fmt.Sprintf("%s.Set(%v,%v)", rv.how, idx, val)
				x.log = append(x.log, what)
				both(what, "view", v, func(a A) { a.Set(idx, T(val)) })
				r.store[off] = val
				if !x.aborted {
					checkStores(what)
				}
				if rv.depth >= 2 {
					o.probe("write_through_grandchild_view")
				}
			}
		case kind == 6: // Get1/Set1/Apply1 (1-D views), Get2/Set2, Get3/Set3
			switch len(rv.shape) {
			case 1:
				i := w.Choose(rv.shape[0])
				val := uniq()
				what := fmt.Sprintf("%s.Set1(%d,%v)+Get1", rv.how, i, val)
				x.log = append(x.log, what)
				var gv, cv T
				both(what, "view", v, func(a A) {
					a1 := any(a).(interface {
						Get1(int) T
						Set1(int, T)
					})
					a1.Set1(i, T(val))
					if any(a) == any(v.g) {
						gv = a1.Get1(i)
					} else {
						cv = a1.Get1(i)
					}
				})
				r.store[rv.offs[i]] = val
				if !x.aborted {
					expect(what, "view", val, gv, cv)
					checkStores(what)
				}
				// Apply1: a 1-D run with a step
				st := 1 + w.Choose(2)
				l := w.Choose(rv.shape[0])
				cnt := 1 + w.Choose((rv.shape[0]-1-l)/st+1)
				vals := make([]T, cnt)
				for j := range vals {
					nvv := uniq()
					vals[j] = T(nvv)
					r.store[rv.offs[l+j*st]] = nvv
				}
				what = fmt.Sprintf("%s.Apply1(%d,%d,%d values)", rv.how, l, st, cnt)
				x.log = append(x.log, what)
				both(what, "write", v, func(a A) {
					any(a).(interface{ Apply1(int, int, []T) }).Apply1(l, st, append([]T(nil), vals...))
				})
				if !x.aborted {
					checkStores(what, "write")
				}
				o.probe("ND1_accessors")
			case 2:
				i, j := w.Choose(rv.shape[0]), w.Choose(rv.shape[1])
				val := uniq()
				what := fmt.Sprintf("%s.Set2(%d,%d,%v)+Get2", rv.how, i, j, val)
				x.log = append(x.log, what)
				var gv, cv T
				both(what, "view", v, func(a A) {
					a2 := any(a).(interface {
						Get2(int, int) T
						Set2(int, int, T)
					})
					a2.Set2(i, j, T(val))
					if any(a) == any(v.g) {
						gv = a2.Get2(i, j)
					} else {
						cv = a2.Get2(i, j)
					}
				})
				r.store[rv.offs[i*rv.shape[1]+j]] = val
				if !x.aborted {
					expect(what, "view", val, gv, cv)
					checkStores(what)
				}
				o.probe("ND2_accessors")
			case 3:
				i, j, l := w.Choose(rv.shape[0]), w.Choose(rv.shape[1]), w.Choose(rv.shape[2])
				val := uniq()
				what := fmt.Sprintf("%s.Set3(%d,%d,%d,%v)+Get3", rv.how, i, j, l, val)
				x.log = append(x.log, what)
				var gv, cv T
				both(what, "view", v, func(a A) {
					a3 := any(a).(interface {
						Get3(int, int, int) T
						Set3(int, int, int, T)
					})
					a3.Set3(i, j, l, T(val))
					if any(a) == any(v.g) {
						gv = a3.Get3(i, j, l)
					} else {
						cv = a3.Get3(i, j, l)
					}
				})
				r.store[rv.offs[(i*rv.shape[1]+j)*rv.shape[2]+l]] = val
				if !x.aborted {
					expect(what, "view", val, gv, cv)
					checkStores(what)
				}
				o.probe("ND3_accessors")
			default:
				// the two- and three-index helpers on an array with more axes: the missing trailing
				// indices are 0 (an [n,m,k] array read as its [n,m] front face)
				if len(rv.shape) == 3 || w.Bool(50) {
					i, j := w.Choose(rv.shape[0]), w.Choose(rv.shape[1])
					val := uniq()
					what := fmt.Sprintf("%s.Set2(%d,%d,%v)+Get2 on %d axes", rv.how, i, j, val, len(rv.shape))
					x.log = append(x.log, what)
					var gv, cv T
					both(what, "view", v, func(a A) {
						a2 := any(a).(interface {
							Get2(int, int) T
							Set2(int, int, T)
						})
						a2.Set2(i, j, T(val))
						if any(a) == any(v.g) {
							gv = a2.Get2(i, j)
						} else {
							cv = a2.Get2(i, j)
						}
					})
					pidx := make([]int, len(rv.shape))
					pidx[0], pidx[1] = i, j
					r.store[rv.offs[flatIndex(pidx, rv.shape)]] = val
					if !x.aborted {
						expect(what, "view", val, gv, cv)
						checkStores(what)
					}
				} else {
					i, j, l := w.Choose(rv.shape[0]), w.Choose(rv.shape[1]), w.Choose(rv.shape[2])
					val := uniq()
					what := fmt.Sprintf("%s.Set3(%d,%d,%d,%v)+Get3 on %d axes", rv.how, i, j, l, val, len(rv.shape))
					x.log = append(x.log, what)
					var gv, cv T
					both(what, "view", v, func(a A) {
						a3 := any(a).(interface {
							Get3(int, int, int) T
							Set3(int, int, int, T)
						})
						a3.Set3(i, j, l, T(val))
						if any(a) == any(v.g) {
							gv = a3.Get3(i, j, l)
						} else {
							cv = a3.Get3(i, j, l)
						}
					})
					pidx := make([]int, len(rv.shape))
					pidx[0], pidx[1], pidx[2] = i, j, l
					r.store[rv.offs[flatIndex(pidx, rv.shape)]] = val
					if !x.aborted {
						expect(what, "view", val, gv, cv)
						checkStores(what)
					}
				}
				o.probe("two_or_three_index_helpers_on_more_axes")
			}
		case kind <= 8: // Apply: a 1-D run along one dimension
			rank := len(rv.shape)
			dim := w.Choose(rank)
			loc := drawIdx(rv.shape)
			st := 1 + w.Choose(3)
			cnt := 1 + w.Choose((rv.shape[dim]-1-loc[dim])/st+1)
			vals := make([]T, cnt)
			pidx := append([]int(nil), loc...)
			for j := range vals {
				nvv := uniq()
				vals[j] = T(nvv)
				pidx[dim] = loc[dim] + j*st
				r.store[rv.offs[flatIndex(pidx, rv.shape)]] = nvv
			}
			what := fmt.Sprintf("%s.Apply(%v,dim %d,step %d,%d values)", rv.how, loc, dim, st, cnt)
			x.log = append(x.log, what)
			locBefore := append([]int(nil), loc...)
			both(what, "write", v, func(a A) {
				l2 := append([]int(nil), loc...)
				a.Apply(l2, dim, st, append([]T(nil), vals...))
				if !eqInts(l2, locBefore) {
					x.fail("write", "loc-not-restored", "apply/loc", "%s left the caller's position vector changed: %v", what, l2)
				}
			})
			if !x.aborted {
				checkStores(what, "write")
			}
			if rv.stepped {
				o.probe("apply_on_stepped_view")
			}
		case kind <= 11: // ApplySlice / CopyFrom from a fresh source (or a view of another root)
			rank := len(rv.shape)
			loc := make([]int, rank)
			sub := make([]int, rank)
			step := make([]int, rank)
			copyFrom := w.Bool(35)
			smallerSource := w.Bool(40)
			for d := 0; d < rank; d++ {
				step[d] = 1
				if copyFrom {
					// CopyFrom places the source at the origin; a source smaller than the
					// destination (in any dimension) is a block copy
					sub[d] = rv.shape[d]
					if smallerSource && w.Bool(50) {
						sub[d] = 1 + w.Choose(rv.shape[d])
					}
					continue
				}
				if w.Bool(30) {
					step[d] = 2
				}
				loc[d] = w.Choose(rv.shape[d])
				sub[d] = 1 + w.Choose((rv.shape[d]-1-loc[d])/step[d]+1)
			}
			emptySource := w.Choose(12) == 11
			if emptySource {
				// a block with a zero extent (a model without lag states, a table split at its last
				// column): the call must write nothing
				sub[w.Choose(rank)] = 0
				o.probe("two_array_op_with_empty_source_block")
			}
			cnt := product(sub)
			svals := make([]float64, cnt)
			for i := range svals {
				svals[i] = uniq()
			}
			layout := w.Choose(5)
			if emptySource {
				// a view with a zero extent of non-empty storage, or an array that owns no elements
				layout = w.Choose(4)
			}
			// destination offsets of the block, row-major
			doffs := make([]int, 0, cnt)
			{
				idx := make([]int, rank)
				pidx := make([]int, rank)
				for i := 0; i < cnt; i++ {
					for d := 0; d < rank; d++ {
						pidx[d] = loc[d] + idx[d]*step[d]
					}
					doffs = append(doffs, rv.offs[flatIndex(pidx, rv.shape)])
					rowMajorNext(idx, sub)
				}
			}
			var srcG, srcC A
			aliased := false
			if w.Bool(30) && !emptySource {
				// the source is another view of the SAME storage (in-place decimation, shifting a
				// block, copying between differently strided windows): only configurations in
				// which the element-by-element definition does not depend on the order
				if sv, soffs, ok := sameRootSource(views, v, sub, w); ok && hazardFree(doffs, soffs.offs) {
					srcG, srcC = soffs.g, soffs.c
					for i := range svals {
						svals[i] = r.store[soffs.offs[i]]
					}
					aliased = true
					layout = 0
					_ = sv
					o.probe("two_array_op_source_aliases_destination_storage")
				}
			}
			if !aliased {
				srcG = makeSource(k, layout, sub, svals, w)
				srcC = makeSource(k, layout, sub, svals, w)
				if w.Bool(30) && !emptySource {
					srcC = makeSource(k, 5, sub, svals, w) // C-backed source into the C-backed destination
				}
			}
			for i := 0; i < cnt; i++ {
				r.store[doffs[i]] = svals[i]
			}
			var what string
			var stepArg []int = step
			if copyFrom {
				what = fmt.Sprintf("%s.CopyFrom(%s source %v)", rv.how, layoutNames[layout], sub)
			} else {
				if w.Bool(30) && !hasStep(step) {
					stepArg = nil
				}
				what = fmt.Sprintf("%s.ApplySlice(%v,%v,%s source %v)", rv.how, loc, stepArg, layoutNames[layout], sub)
			}
			x.log = append(x.log, what)
			both(what, "write", v, func(a A) {
				src := srcG
				if any(a) != any(v.g) {
					src = srcC
				}
				if copyFrom {
					a.CopyFrom(src)
				} else {
					a.ApplySlice(append([]int(nil), loc...), cloneInts(stepArg), src)
				}
			})
			if !x.aborted {
				checkStores(what, "write")
			}
			if isConsecutive(rv.offs) && !copyFrom {
				o.probe("applyslice_into_contiguous_view")
			}
			o.probe("two_array_op_source:" + layoutNames[layout])
		case kind <= 13: // Unroll / Contiguous / Maximum / Minimum
			what := rv.how + ".Unroll+Contiguous+Max+Min"
			x.log = append(x.log, what)
			cons := isConsecutive(rv.offs)
			var goUnrolled []T
			var goMax, goMin T
			both(what, "bulk", v, func(a A) {
				isGo := any(a) == any(v.g)
				fam := "bulk"
				tag := "go/"
				if !isGo {
					fam, tag = "cdiff:bulk", "c/"
				}
				if got := a.Contiguous(); got != cons {
					// the Go-backed array is evaluated first: a wrong answer there is the array package's
					// (the predicate is shared); a wrong answer of the C-backed twin alone is a
					// difference between the back-ends
					x.fail(fam, "contiguity-predicate", tag+"contiguous", "%s.Contiguous() = %v but its elements are at storage offsets %v (adjacent: %v)", rv.how, got, head(rv.offs, 24), cons)
					return
				}
				u := a.Unroll()
				if len(u) != n {
					x.fail(fam, "unroll-differs", tag+"unroll", "%s.Unroll() has %d elements, the view has %d", rv.how, len(u), n)
					return
				}
				mx, mn := r.store[rv.offs[0]], r.store[rv.offs[0]]
				for i, off := range rv.offs {
					if !sameVal(u[i], r.store[off]) {
						x.fail(fam, "unroll-differs", tag+"unroll", "%s.Unroll()[%d] = %v, visiting the view in row-major order gives %v", rv.how, i, u[i], r.store[off])
						return
					}
					if r.store[off] > mx {
						mx = r.store[off]
					}
					if r.store[off] < mn {
						mn = r.store[off]
					}
				}
				if float64(a.Maximum()) != mx || float64(a.Minimum()) != mn {
					x.fail(fam, "minmax-differs", tag+"minmax", "%s: Maximum/Minimum = %v/%v, expected %v/%v", rv.how, a.Maximum(), a.Minimum(), mx, mn)
					return
				}
				// (which of two tied extremes is returned - zeros of different sign - is the same on both
				// back-ends: bit-level comparison of the C-backed answer with the Go-backed one)
				if isGo {
					goMax, goMin = a.Maximum(), a.Minimum()
				} else if !sameVal(a.Maximum(), float64(goMax)) || !sameVal(a.Minimum(), float64(goMin)) || math.Signbit(float64(a.Minimum())) != math.Signbit(float64(goMin)) || math.Signbit(float64(a.Maximum())) != math.Signbit(float64(goMax)) {
					x.fail(fam, "minmax-differs", tag+"minmax/tie", "%s: Maximum/Minimum on the C-backed array = %v/%v, on the Go-backed array %v/%v (bit level)", rv.how, a.Maximum(), a.Minimum(), goMax, goMin)
					return
				}
				if isGo {
					goUnrolled = u
					if !cons {
						// an earlier snapshot of the same scattered view is the caller's: a later Unroll
						// must not have changed it
						for i := range v.snap {
							if !sameVal(v.snap[i], v.snapVals[i]) {
								x.fail(fam, "earlier-unroll-result-changed", tag+"unroll/snapshot", "%s: element %d of the slice an EARLIER Unroll of this scattered view returned is now %v, it was %v when it was returned (a snapshot belongs to the caller)", rv.how, i, v.snap[i], v.snapVals[i])
								return
							}
						}
						v.snap = u
						v.snapVals = make([]float64, len(rv.offs))
						for i, off := range rv.offs {
							v.snapVals[i] = r.store[off]
						}
					}
				}
			})
			if !x.aborted && cons && n > 0 {
				// unrolling a contiguous Go-backed view aliases the storage: write through it
				j := w.Choose(n)
				val := uniq()
				goUnrolled[j] = T(val)
				r.store[rv.offs[j]] = val
				// the C root has to follow the reference too: write the same element through Set
				idx := make([]int, len(rv.shape))
				for i := 0; i < n; i++ {
					if !sameVal(v.c.Get(idx), r.store[rv.offs[i]]) {
						v.c.Set(idx, T(r.store[rv.offs[i]]))
					}
					rowMajorNext(idx, rv.shape)
				}
				checkStoresBulk(k, x, roots, "writing through the slice returned by "+rv.how+".Unroll() (contiguous Go-backed view must alias its storage)")
			}
			if cons {
				o.probe("bulk_op_on_contiguous_view")
			} else {
				o.probe("bulk_op_on_non_contiguous_view")
			}
		case kind <= 15: // Reshape / ReshapeFast
			cons := isConsecutive(rv.offs)
			newShape := factorShape(w, n)
			mismatch := w.Choose(8) == 7
			if mismatch {
				newShape = append(newShape, 2+w.Choose(2))
			}
			// reshaping to the array's own shape, handing back the very slice Shape() returned
			ownShape := !mismatch && w.Choose(8) == 7
			if ownShape {
				newShape = append([]int(nil), rv.shape...)
				o.probe("reshape_to_own_shape_slice")
			}
			what := fmt.Sprintf("%s.Reshape(%v)", rv.how, newShape)
			x.log = append(x.log, what)
			nv := &arrView[T, A]{ref: refView{root: rv.root, offs: rv.offs, shape: newShape, depth: rv.depth, stepped: rv.stepped, nested: rv.nested, how: what}}
			both(what, "bulk", v, func(a A) {
				isGo := any(a) == any(v.g)
				fam, tag := "bulk", "go/"
				if !isGo {
					fam, tag = "cdiff:bulk", "c/"
				}
				arg := newShape
				if ownShape {
					arg = a.Shape()
				}
				res, err := a.Reshape(arg)
				if (err != nil) != mismatch {
					x.fail(fam, "reshape-error-contract", tag+"reshape/error", "%s returned error %v; element counts %d vs %d", what, err, n, product(newShape))
					return
				}
				_, ferr := a.ReshapeFast(newShape)
				if (ferr != nil) != (mismatch || !cons) {
					x.fail(fam, "reshapefast-error-contract", tag+"reshapefast/error", "%s.ReshapeFast(%v) returned error %v; view contiguous: %v, counts match: %v", rv.how, newShape, ferr, cons, !mismatch)
					return
				}
				if mismatch {
					return
				}
				if n > 0 && !res.Contiguous() {
					// the result is the view's elements in row-major order: an alias of a contiguous
					// view or a compact copy of a scattered one - adjacent either way
					x.fail(fam, "reshape-result-not-compact", tag+"reshape/compact", "%s: the result reports Contiguous() == false (receiver contiguous: %v)", what, cons)
					return
				}
				idx := make([]int, len(newShape))
				for i := 0; i < n; i++ {
					if got := res.Get(idx); !sameVal(got, r.store[rv.offs[i]]) {
						key := tag + "reshape"
						if !cons {
							key += "/non-contiguous-view"
						}
						x.fail(fam, "reshape-differs", key, "%s: element %v of the result is %v, row-major order of the view gives %v (view contiguous: %v)", what, idx, got, r.store[rv.offs[i]], cons)
						return
					}
					rowMajorNext(idx, newShape)
				}
				if isGo {
					nv.g = res
				} else {
					nv.c = res
				}
			})
			if !x.aborted && !mismatch && cons && len(views) < 12 && n > 0 {
				// a reshaped contiguous view aliases the storage on both back-ends: pool it and
				// check the aliasing with a write through it
				views = append(views, nv)
				idx := drawIdx(newShape)
				val := uniq()
				w2 := fmt.Sprintf("%s.Set(%v,%v)", what, idx, val)
				x.log = append(x.log, w2)
				both(w2, "bulk", nv, func(a A) { a.Set(idx, T(val)) })
				r.store[rv.offs[flatIndex(idx, newShape)]] = val
				if !x.aborted {
					checkStoresBulk(k, x, roots, w2+" (a reshaped contiguous view must alias the storage)")
				}
				o.probe("reshape_aliases_contiguous_view")
			}
			if !cons {
				o.probe("reshape_of_non_contiguous_view")
			}
		case kind <= 17 && k.scale != nil: // Scale / AddTo / ApplyFunc1 between two arrays
			// destination: the picked view; source: a fresh array in a seeded layout
			svals := make([]float64, n)
			for i := range svals {
				svals[i] = float64(1 + w.Choose(50))
			}
			layout := w.Choose(5)
			which := w.Choose(3)
			// the factor: mostly 3, sometimes one of the values an implementation might treat
			// specially (1: nothing to multiply, 0: everything becomes zero, 2)
			scaleBy := []int{3, 3, 3, 1, 1, 0, 2}[w.Choose(7)]
			names := []string{fmt.Sprintf("Scale by %d", scaleBy), "AddTo", "ApplyFunc1"}
			what := fmt.Sprintf("%s(dest %s, %s source)", names[which], rv.how, layoutNames[layout])
			x.log = append(x.log, what)
			var aSrc *aliasSrc[T, A]
			aHazard := false
			if w.Bool(30) {
				if _, sv, ok := sameRootSource(views, v, rv.shape, w); ok {
					aSrc = sv
					aHazard = !hazardFree(rv.offs, sv.offs)
					what = fmt.Sprintf("%s(dest %s, source = %s of the same storage)", names[which], rv.how, sv.how)
					x.log[len(x.log)-1] = what
					o.probe("array_arithmetic_source_aliases_destination_storage")
				}
			}
			// the reference keeps every element as a float64: a result beyond 2^53 (64-bit integer
			// element types; a cascade through an aliased source multiplies by 3 per hop) could not be
			// held exactly, so such an operation is replaced by the +1 function, whose results stay small
			applyRef := func(which int) (exact bool) {
				exact = true
				for i, off := range rv.offs {
					sval := svals[i]
					if aSrc != nil {
						// element by element, in row-major order, on the current contents
						sval = r.store[aSrc.offs[i]]
					}
					switch which {
					case 0:
						r.store[off] = float64(T(sval) * T(scaleBy))
					case 1:
						r.store[off] = float64(T(r.store[off]) + T(sval))
					case 2:
						r.store[off] = float64(T(sval) + 1)
					}
					if k.name != "float64" && k.name != "float32" && math.Abs(r.store[off]) >= 1<<53 {
						exact = false
					}
				}
				return
			}
			saved := make([]float64, len(rv.offs))
			for i, off := range rv.offs {
				saved[i] = r.store[off]
			}
			if !applyRef(which) {
				for i, off := range rv.offs {
					r.store[off] = saved[i]
				}
				which = 2
				what = strings.Replace(what, names[0]+"(", names[2]+"(", 1)
				what = strings.Replace(what, names[1]+"(", names[2]+"(", 1)
				x.log[len(x.log)-1] = what
				if !applyRef(2) {
					panic("harness: reference values beyond 2^53 although only +1 was applied")
				}
				o.probe("array_arithmetic_cascade_would_exceed_2^53(replaced_by_+1)")
			}
			both(what, "bulk", v, func(a A) {
				isGo := any(a) == any(v.g)
				src := makeSource(k, layout, rv.shape, svals, w)
				if aSrc != nil {
					if isGo {
						src = aSrc.g
					} else if aHazard {
						// the C back-end computes from a snapshot of the source when both views are
						// contiguous; with an order hazard its result is not defined by the property:
						// bring the C buffer in line with the reference instead
						for _, off := range rv.offs {
							k.cSet(r.cb, off, r.store[off])
						}
						return
					} else {
						src = aSrc.c
					}
				}
				switch which {
				case 0:
					k.scale(a, src, T(scaleBy))
				case 1:
					k.addTo(a, src)
				case 2:
					k.applyFn(a, src, func(t T) T { return t + 1 })
				}
			})
			if !x.aborted {
				checkStoresBulk(k, x, roots, what)
			}
			dc := "non-contiguous"
			if isConsecutive(rv.offs) {
				dc = "contiguous"
			}
			sc := "non-contiguous"
			if layout == 0 || layout == 4 {
				sc = "contiguous"
			}
			o.probe("array_arithmetic:dest_" + dc + "+source_" + sc)
		case kind == 18: // integer index helpers against their arithmetic definitions
			helperChecks(x, w)
		default:
			if w.Choose(400) == 399 {
				hugeCProbe(k, x, w)
			} else if w.Choose(240) == 239 {
				largeBlockProbe(k, x, w)
			} else if w.Choose(5) == 4 {
				// an empty view (one axis of extent 0, anywhere from the start to the very end of that
				// axis): nothing to read or write, but every operation must still answer - no panic, an
				// empty Unroll, reshaping to empty shapes succeeds and to a non-empty one fails,
				// ReshapeFast agrees with the view's own Contiguous(), both back-ends give the same answers
				rank := len(rv.shape)
				loc, dims := make([]int, rank), make([]int, rank)
				z := w.Choose(rank)
				for d := 0; d < rank; d++ {
					loc[d] = w.Choose(rv.shape[d])
					dims[d] = 1 + w.Choose(rv.shape[d]-loc[d])
				}
				loc[z], dims[z] = w.Choose(rv.shape[z]+1), 0
				what := fmt.Sprintf("%s.Slice(%v,%v,nil) [empty]: Contiguous/Unroll/Reshape/ReshapeFast/CopyFrom", rv.how, loc, dims)
				x.log = append(x.log, what)
				var answers [2][4]bool
				both(what, "bulk", v, func(a A) {
					isGo := any(a) == any(v.g)
					fam, tag, slot := "bulk", "go/", 0
					if !isGo {
						fam, tag, slot = "cdiff:bulk", "c/", 1
					}
					e := a.Slice(append([]int(nil), loc...), append([]int(nil), dims...), nil)
					cg := e.Contiguous()
					if u := e.Unroll(); len(u) != 0 {
						x.fail(fam, "unroll-differs", tag+"unroll/empty", "%s: Unroll of the empty view has %d elements", what, len(u))
						return
					}
					_, e1 := e.Reshape([]int{0})
					_, e2 := e.Reshape([]int{3, 0})
					_, e3 := e.Reshape([]int{2})
					_, e4 := e.ReshapeFast([]int{0})
					if e1 != nil || e2 != nil || e3 == nil {
						x.fail(fam, "reshape-error-contract", tag+"reshape/error/empty", "%s: Reshape([0]) -> %v, Reshape([3 0]) -> %v, Reshape([2]) -> %v (the first two must succeed, the third must fail)", what, e1, e2, e3)
						return
					}
					if (e4 == nil) != cg {
						x.fail(fam, "reshapefast-error-contract", tag+"reshapefast/error/empty", "%s: the view reports Contiguous() == %v but ReshapeFast([0]) -> %v", what, cg, e4)
						return
					}
					e.CopyFrom(e)
					answers[slot] = [4]bool{cg, e1 == nil, e3 == nil, e4 == nil}
				})
				if !x.aborted && answers[0] != answers[1] {
					x.fail("cdiff:bulk", "empty-view-answers-differ", "c/empty-view", "%s: the Go-backed array answers %v, the C-backed one %v (Contiguous, Reshape ok, Reshape to 2 ok, ReshapeFast ok)", what, answers[0], answers[1])
				}
				if !x.aborted {
					checkStoresBulk(k, x, roots, what)
				}
				o.probe("operations_on_an_empty_view")
			} else if w.Choose(6) == 5 {
				// a failing call: an out-of-range block write on a scratch array that is not in the
				// pool panics part-way and is recovered by the caller; nothing is asserted about the
				// scratch array, but the valid calls that follow must be unaffected
				rank := 1 + w.Choose(3)
				sd, big, loc := make([]int, rank), make([]int, rank), make([]int, rank)
				for d := range sd {
					sd[d] = 2 + w.Choose(3)
					big[d] = sd[d]
				}
				big[w.Choose(rank)] += 1 + w.Choose(3)
				what := fmt.Sprintf("scratch%v.ApplySlice(source %v: out of range, recovered)", sd, big)
				x.log = append(x.log, what)
				func() {
					defer func() { recover() }()
					k.newGo(sd).Slice(loc, sd, nil).ApplySlice(loc, nil, makeSource(k, 1, big, make([]float64, product(big)), w))
				}()
				func() {
					defer func() { recover() }()
					// non-contiguous destination: the element-by-element path
					sd2 := append([]int(nil), sd...)
					sd2[rank-1]++
					k.newGo(sd2).Slice(loc, sd, nil).ApplySlice(loc, nil, makeSource(k, 1, big, make([]float64, product(big)), w))
				}()
				o.probe("failing_call_on_unrelated_array_before_valid_calls")
			} else if w.Bool(50) {
				extremeMinMax(k, x, w)
			} else if len(roots) < 3 && w.Bool(30) {
				newRoot()
			}
		}
		o.Nontrivial = len(views) >= 2
	}
	o.probe("element_type:" + k.name)
}

func checkStoresBulk[T num, A arr[T, A]](k kit[T, A], x *arrCtx, roots []*arrRoot[T, A], after string) {
	for ri, r := range roots {
		for i, e := range r.store {
			if !sameVal(r.goBuf[i], e) {
				x.fail("bulk", "bulk-result-differs", "go/bulk", "after %s: Go-backed storage of root %d element %d is %v, the element-by-element definition gives %v", after, ri, i, r.goBuf[i], e)
				return
			}
			if !sameBits(k, k.cGet(r.cb, i), e) {
				x.fail("cdiff:bulk", "c-storage-differs", "c/bulk", "after %s: C buffer of root %d element %d is %v, the Go-backed array and the reference have %v", after, ri, i, k.cGet(r.cb, i), e)
				return
			}
		}
		for i := 0; i < r.tail; i++ {
			if r.goBuf[len(r.store)+i] != T(99) {
				x.fail("bulk", "write-outside-array", "go/tail", "after %s: element %d of the Go backing slice, beyond the array of root %d, was overwritten with %v", after, len(r.store)+i, ri, r.goBuf[len(r.store)+i])
				return
			}
		}
		if off, ok := r.cb.canaryIntact(); !ok {
			x.fail("cdiff:bulk", "write-outside-buffer", "c/canary", "after %s: the slack next to the C buffer was overwritten at byte offset %d", after, off)
			return
		}
	}
}

func hasStep(s []int) bool {
	for _, v := range s {
		if v != 1 {
			return true
		}
	}
	return false
}

func cloneInts(s []int) []int {
	if s == nil {
		return nil
	}
	return append([]int(nil), s...)
}

func factorShape(w *simrt.Tape, n int) []int {
	// a random factorisation of n into 1-3 factors
	shape := []int{}
	rem := n
	parts := 1 + w.Choose(3)
	for p := 0; p < parts-1; p++ {
		var divs []int
		for d := 1; d <= rem; d++ {
			if rem%d == 0 {
				divs = append(divs, d)
			}
		}
		f := divs[w.Choose(len(divs))]
		shape = append(shape, f)
		rem /= f
	}
	return append(shape, rem)
}

func trimStackStr(st string) string {
	lines := strings.Split(st, "\n")
	var out []string
	for _, l := range lines {
		if strings.Contains(l, "openwater-core") {
			out = append(out, strings.TrimSpace(l))
		}
		if len(out) >= 8 {
			break
		}
	}
	return strings.Join(out, " | ")
}

// helperChecks: Offsets, IDivMod, Increment, Product, Multiply, Argmax, Maximum.
func helperChecks(x *arrCtx, w *simrt.Tape) {
	n := 1 + w.Choose(5)
	v := make([]int, n)
	u := make([]int, n)
	for i := range v {
		v[i] = 1 + w.Choose(7)
		u[i] = w.Choose(9)
	}
	x.log = append(x.log, fmt.Sprintf("helpers(%v,%v)", v, u))
	x.o.probe("index_helpers")
	p := 1
	for _, e := range v {
		p *= e
	}
	if got := data.Product(v); got != p {
		x.fail("bulk", "helper-differs", "helper/Product", "Product(%v) = %d, expected %d", v, got, p)
		return
	}
	m := data.Multiply(v, u)
	for i := range v {
		if m[i] != v[i]*u[i] {
			x.fail("bulk", "helper-differs", "helper/Multiply", "Multiply(%v,%v) = %v", v, u, m)
			return
		}
	}
	best, arg := u[0], 0
	for i, e := range u {
		if e > best {
			best, arg = e, i
		}
	}
	if got := data.Maximum(u); got != best {
		x.fail("bulk", "helper-differs", "helper/Maximum", "Maximum(%v) = %d, expected %d", u, got, best)
		return
	}
	if got := data.Argmax(u); got != arg {
		x.fail("bulk", "helper-differs", "helper/Argmax", "Argmax(%v) = %d, the first maximum is at index %d", u, got, arg)
		return
	}
	offs := data.Offsets(v)
	acc := 1
	for i := n - 1; i >= 0; i-- {
		if offs[i] != acc {
			x.fail("bulk", "helper-differs", "helper/Offsets", "Offsets(%v) = %v", v, offs)
			return
		}
		acc *= v[i]
	}
	// large operands (flat indices and extents of arrays with billions of elements): IDivMod and
	// Offsets against their arithmetic definitions, no array needed
	{
		ld := []int{1 + w.Choose(7), 1 << uint(10+w.Choose(14)), 1000 + w.Choose(4000000)}
		lo := data.Offsets(ld)
		if lo[2] != 1 || lo[1] != ld[2] || lo[0] != ld[1]*ld[2] {
			x.fail("bulk", "helper-differs", "helper/Offsets", "Offsets(%v) = %v", ld, lo)
			return
		}
		total := ld[0] * ld[1] * ld[2]
		for _, num := range []int{total - 1, total / 2, 1<<31 - 1, 1 << 31, 1<<31 + 12345, 3000000000, 1<<32 - 1, 1 << 32, 1<<33 + 7} {
			if num >= total || num < 0 {
				continue
			}
			got := data.IDivMod(num, lo, ld)
			want := []int{(num / lo[0]) % ld[0], (num / lo[1]) % ld[1], (num / lo[2]) % ld[2]}
			if !eqInts(got, want) {
				x.fail("bulk", "helper-differs", "helper/IDivMod", "IDivMod(%d,%v,%v) = %v, arithmetic gives %v", num, lo, ld, got, want)
				return
			}
		}
	}
	// IDivMod inverts the row-major flattening; Increment enumerates in row-major order
	idx := make([]int, n)
	for k := 0; k < p && k < 400; k++ {
		got := data.IDivMod(k, offs, v)
		if !eqInts(got, idx) {
			x.fail("bulk", "helper-differs", "helper/IDivMod", "IDivMod(%d,%v,%v) = %v, row-major position is %v", k, offs, v, got, idx)
			return
		}
		if flatIndex(idx, v) != k {
			x.fail("bulk", "helper-differs", "helper/Increment", "Increment enumerated %v as element %d of shape %v", idx, k, v)
			return
		}
		data.Increment(idx, v)
	}
	if p <= 400 {
		for _, e := range idx {
			if e != 0 {
				x.fail("bulk", "helper-differs", "helper/Increment", "Increment did not wrap to zero after %d steps over shape %v: %v", p, v, idx)
				return
			}
		}
	}
}

// opName extracts the last method name of a description like "root[2 3].Slice(...).Get([0 1])"
// and appends the sub-domain of the receiver chain (how many Slice calls with a step precede).
func opName(what string) string {
	name := what
	if i := strings.LastIndex(what, ")."); i >= 0 {
		name = what[i+2:]
	} else if i := strings.Index(what, "]."); i >= 0 {
		name = what[i+2:]
	}
	if i := strings.IndexAny(name, "(+"); i >= 0 {
		name = name[:i]
	}
	return name
}

// singleLongDim returns the index of the only dimension longer than 1, or -1.
func singleLongDim(shape []int) int {
	big := -1
	for d, e := range shape {
		if e > 1 {
			if big >= 0 {
				return -1
			}
			big = d
		}
	}
	return big
}

// extremeMinMax: Maximum/Minimum must compare in the element type itself (values that differ
// only beyond float64's 53-bit mantissa, the type's extremes), on both back-ends.
func extremeMinMax[T num, A arr[T, A]](k kit[T, A], x *arrCtx, w *simrt.Tape) {
	var cands []T
	var zero T
	one := zero + 1
	// largest and smallest representable values, found by doubling (no reflection needed)
	hi := one
	for hi*2 > hi && hi*2/2 == hi {
		hi *= 2
	}
	cands = append(cands, zero, one, hi, hi-1, hi-2, hi/2+1, hi/2, hi/4+3)
	neg := zero - 1
	if neg < zero {
		cands = append(cands, neg, zero-hi, zero-hi+1, zero-hi/2-1)
	}
	big53 := one
	for i := 0; i < 53; i++ {
		big53 *= 2
	}
	if big53/2 > 0 && big53 > 0 && big53+1 != big53 {
		cands = append(cands, big53, big53+1, big53+2, big53-1)
	}
	n := 2 + w.Choose(6)
	vals := make([]T, n)
	for i := range vals {
		vals[i] = cands[w.Choose(len(cands))]
	}
	mx, mn := vals[0], vals[0]
	for _, v := range vals {
		if v > mx {
			mx = v
		}
		if v < mn {
			mn = v
		}
	}
	what := fmt.Sprintf("Maximum/Minimum of %v (%s)", vals, k.name)
	x.log = append(x.log, what)
	g := k.fromSlice(append([]T(nil), vals...), []int{n})
	if g.Maximum() != mx || g.Minimum() != mn {
		x.fail("bulk", "minmax-differs", "go/minmax", "%s on the Go-backed array = %v/%v, comparing in the element type gives %v/%v", what, g.Maximum(), g.Minimum(), mx, mn)
		return
	}
	if k.cSize == k.elemSize {
		cb := allocC(n*k.cSize, true, false)
		c := k.newC(cb.ptr, []int{n})
		for i, v := range vals {
			c.Set([]int{i}, v)
		}
		if c.Maximum() != mx || c.Minimum() != mn {
			x.fail("cdiff:bulk", "minmax-differs", "c/minmax", "%s on the C-backed array = %v/%v, the Go-backed array gives %v/%v", what, c.Maximum(), c.Minimum(), mx, mn)
			return
		}
	}
	x.o.probe("minmax_extreme_values")
}

// sameVal compares an element with the reference value on bit patterns for the floating-point
// types (so that -0.0 and +0.0 are different values) and numerically for the integer types.
func sameVal[T num](t T, ref float64) bool {
	switch x := any(t).(type) {
	case float64:
		return math.Float64bits(x) == math.Float64bits(ref)
	case float32:
		return math.Float32bits(x) == math.Float32bits(float32(ref))
	}
	return float64(t) == ref
}

func sameBits[T num, A arr[T, A]](k kit[T, A], got, ref float64) bool {
	var z T
	switch any(z).(type) {
	case float64:
		return math.Float64bits(got) == math.Float64bits(ref)
	case float32:
		return math.Float32bits(float32(got)) == math.Float32bits(float32(ref))
	}
	return got == ref
}

func isFloatKit[T num]() bool {
	var z T
	switch any(z).(type) {
	case float64, float32:
		return true
	}
	return false
}

// hazardFree reports whether copying src -> dst element by element in row-major order is
// independent of the order (no element written earlier is read later), so that the
// element-by-element definition, a block copy and a snapshot copy all agree.
func hazardFree(doffs, soffs []int) bool {
	for i := 0; i < len(doffs); i++ {
		for j := i + 1; j < len(soffs); j++ {
			if doffs[i] == soffs[j] {
				return false
			}
		}
	}
	return true
}

// aliasSrc is a source view cut from a pooled view of the same root as the destination.
type aliasSrc[T num, A arr[T, A]] struct {
	g, c A
	offs []int
	how  string
}

// sameRootSource cuts a view of the given shape out of a pooled view that shares the
// destination's storage.  Returns the pooled parent, the cut and ok.
func sameRootSource[T num, A arr[T, A]](views []*arrView[T, A], dest *arrView[T, A], shape []int, w *simrt.Tape) (*arrView[T, A], *aliasSrc[T, A], bool) {
	var cands []*arrView[T, A]
	for _, v := range views {
		if v.ref.root != dest.ref.root || len(v.ref.shape) != len(shape) {
			continue
		}
		fits := true
		for d := range shape {
			if v.ref.shape[d] < shape[d] {
				fits = false
			}
		}
		if fits {
			cands = append(cands, v)
		}
	}
	if len(cands) == 0 {
		return nil, nil, false
	}
	p := cands[w.Choose(len(cands))]
	rank := len(shape)
	loc, step := make([]int, rank), make([]int, rank)
	for d := 0; d < rank; d++ {
		step[d] = 1
		if shape[d] > 1 && (p.ref.shape[d]-1)/(shape[d]-1) >= 2 && w.Bool(40) {
			step[d] = 2
		}
		span := (shape[d]-1)*step[d] + 1
		loc[d] = w.Choose(p.ref.shape[d] - span + 1)
	}
	out := &aliasSrc[T, A]{how: fmt.Sprintf("%s.Slice(%v,%v,%v)", p.ref.how, loc, shape, step)}
	idx, pidx := make([]int, rank), make([]int, rank)
	for i := 0; i < product(shape); i++ {
		for d := 0; d < rank; d++ {
			pidx[d] = loc[d] + idx[d]*step[d]
		}
		out.offs = append(out.offs, p.ref.offs[flatIndex(pidx, p.ref.shape)])
		rowMajorNext(idx, shape)
	}
	for _, dst := range []*A{&out.g, &out.c} {
		la, sa := append([]int(nil), loc...), append([]int(nil), step...)
		src := p.g
		if dst == &out.c {
			src = p.c
		}
		*dst = src.Slice(la, append([]int(nil), shape...), sa)
		// the argument vectors are reused by the caller afterwards
		for i := range la {
			la[i], sa[i] = 1000003+i, 7+i
		}
	}
	return p, out, true
}

// hugeCProbe: a C-backed array with more than 2^28 elements (lazily mapped, only its last
// rows are touched): reads, writes and bulk operations near the end of the buffer.
func hugeCProbe[T num, A arr[T, A]](k kit[T, A], x *arrCtx, w *simrt.Tape) {
	const cols = 16384
	rows := (1<<28)/cols + 2 + w.Choose(3)
	n := rows * cols
	total := ((n*k.cSize+pageSize-1)/pageSize + 1) * pageSize
	mem, err := syscall.Mmap(-1, 0, total, syscall.PROT_READ|syscall.PROT_WRITE, syscall.MAP_ANON|syscall.MAP_PRIVATE|syscall.MAP_NORESERVE)
	if err != nil {
		x.o.probe("huge_c_buffer_probe_skipped(mmap_failed)")
		return
	}
	defer syscall.Munmap(mem)
	syscall.Mprotect(mem[total-pageSize:], syscall.PROT_NONE)
	lo := total - pageSize - n*k.cSize
	cb := &cbuf{region: mem, ptr: unsafe.Pointer(&mem[lo]), nbytes: n * k.cSize, lo: lo, hi: lo + n*k.cSize}
	a := k.newC(cb.ptr, []int{rows, cols})
	what := fmt.Sprintf("C-backed %s array [%d %d] (%d elements): operations on its last row", k.name, rows, cols, n)
	x.log = append(x.log, what)
	var escaped interface{}
	func() {
		defer func() { escaped = recover() }()
		last := a.Slice([]int{rows - 1, 0}, []int{1, cols}, nil)
		vals := make([]T, cols)
		for j := range vals {
			vals[j] = T(1 + j%97)
		}
		last.Apply([]int{0, 0}, 1, 1, vals)
		for _, j := range []int{0, 1, cols / 2, cols - 1} {
			if got := a.Get([]int{rows - 1, j}); got != vals[j] {
				x.fail("cdiff:bulk", "huge-buffer", "c/huge", "%s: element [%d %d] reads %v after writing %v", what, rows-1, j, got, vals[j])
				return
			}
			if got := k.cGet(cb, (rows-1)*cols+j); got != float64(vals[j]) {
				x.fail("cdiff:bulk", "huge-buffer", "c/huge", "%s: the buffer holds %v at element %d, %v was written", what, got, (rows-1)*cols+j, vals[j])
				return
			}
		}
		u := last.Unroll()
		if len(u) != cols || u[cols-1] != vals[cols-1] || u[0] != vals[0] {
			x.fail("cdiff:bulk", "huge-buffer", "c/huge", "%s: Unroll of the last row is wrong", what)
			return
		}
		if last.Maximum() != T(97) || last.Minimum() != T(1) {
			x.fail("cdiff:bulk", "huge-buffer", "c/huge", "%s: Maximum/Minimum of the last row = %v/%v", what, last.Maximum(), last.Minimum())
			return
		}
		rs, err := last.Reshape([]int{cols})
		if err != nil || rs.Get([]int{cols - 1}) != vals[cols-1] {
			x.fail("cdiff:bulk", "huge-buffer", "c/huge", "%s: Reshape of the last row is wrong (%v)", what, err)
			return
		}
		src := k.fromSlice(append([]T(nil), vals...), []int{1, cols})
		src.Set([]int{0, 5}, T(55))
		last.CopyFrom(src)
		if a.Get([]int{rows - 1, 5}) != T(55) {
			x.fail("cdiff:bulk", "huge-buffer", "c/huge", "%s: CopyFrom into the last row did not arrive", what)
			return
		}
	}()
	if escaped != nil {
		x.fail("cdiff:bulk", "huge-buffer", "c/huge", "%s panicked or faulted: %v", what, escaped)
		return
	}
	x.o.probe("huge_c_buffer_probe(>2^28_elements)")
}


// largeBlockProbe: block writes of more than 65536 elements (where an implementation might switch
// to chunked or parallel copying): a block shifted towards the front inside its own storage (the
// element-by-element definition reads every source element before any step overwrites it, so the
// order of the steps does not matter), then a fresh block over the whole array; Go- and C-backed.
func largeBlockProbe[T num, A arr[T, A]](k kit[T, A], x *arrCtx, w *simrt.Tape) {
	cols := 1 + w.Choose(64)
	rows := (65536+w.Choose(70000))/cols + 3
	n := rows * cols
	shift := 1 + w.Choose(2)
	useApplySlice := w.Bool(50)
	gv := make([]T, n)
	ref := make([]float64, n)
	for i := range gv {
		gv[i] = T(1 + i%251)
		ref[i] = float64(gv[i])
	}
	ga := k.fromSlice(gv, []int{rows, cols})
	cb := allocC(n*k.cSize, false, true)
	ca := k.newC(cb.ptr, []int{rows, cols})
	for i := 0; i < n; i++ {
		k.cSet(cb, i, ref[i])
	}
	what := fmt.Sprintf("%s array [%d %d] (%d elements): rows %d.. copied onto rows 0.. of the same storage, then a fresh block over everything", k.name, rows, cols, n, shift)
	x.log = append(x.log, what)
	m := (rows - shift) * cols
	for i := 0; i < m; i++ {
		ref[i] = ref[i+shift*cols]
	}
	fresh := make([]T, n)
	for i := range fresh {
		fresh[i] = T(3 + i%127)
	}
	for pass, a := range []A{ga, ca} {
		fam, tag := "write", "go/"
		if pass == 1 {
			fam, tag = "cdiff:write", "c/"
		}
		var escaped interface{}
		func() {
			defer func() { escaped = recover() }()
			dest := a.Slice([]int{0, 0}, []int{rows - shift, cols}, nil)
			src := a.Slice([]int{shift, 0}, []int{rows - shift, cols}, nil)
			if useApplySlice {
				a.ApplySlice([]int{0, 0}, nil, src)
			} else {
				dest.CopyFrom(src)
			}
		}()
		if escaped != nil {
			x.fail(fam, "panic", tag+"large-block", "%s panicked: %v", what, escaped)
			return
		}
		for i := 0; i < n; i++ {
			got := float64(gv[i])
			if pass == 1 {
				got = k.cGet(cb, i)
			}
			if got != ref[i] {
				x.fail(fam, "storage-differs", tag+"large-block", "%s: after the shift storage element %d is %v, element by element it is %v", what, i, got, ref[i])
				return
			}
		}
	}
	for pass, a := range []A{ga, ca} {
		fam, tag := "write", "go/"
		if pass == 1 {
			fam, tag = "cdiff:write", "c/"
		}
		var escaped interface{}
		func() {
			defer func() { escaped = recover() }()
			a.CopyFrom(k.fromSlice(append([]T(nil), fresh...), []int{rows, cols}))
		}()
		if escaped != nil {
			x.fail(fam, "panic", tag+"large-block", "%s panicked in the second copy: %v", what, escaped)
			return
		}
		for i := 0; i < n; i += 1 + i%7 {
			got := float64(gv[i])
			if pass == 1 {
				got = k.cGet(cb, i)
			}
			if got != float64(fresh[i]) {
				x.fail(fam, "storage-differs", tag+"large-block", "%s: after the whole-array copy storage element %d is %v, the source has %v", what, i, got, fresh[i])
				return
			}
		}
	}
	x.o.probe("block_write_of_more_than_65536_elements")
	// a large view read in bulk, written through ANOTHER view object of the same storage, and read in
	// bulk again (both back-ends): the second reading shows the write
	for pass, a := range []A{ga, ca} {
		// (filed under the write family: what is checked is that a write is visible through every view)
		fam, tag := "write", "go/"
		if pass == 1 {
			fam, tag = "cdiff:write", "c/"
		}
		var escaped interface{}
		func() {
			defer func() { escaped = recover() }()
			u1 := a.Unroll()
			rr, cc := w.Choose(rows), w.Choose(cols)
			child := a.Slice([]int{rr, 0}, []int{1, cols}, nil)
			marker := T(253)
			child.Set([]int{0, cc}, marker)
			u2 := a.Unroll()
			if len(u1) != n || len(u2) != n {
				x.fail(fam, "unroll-differs", tag+"unroll/large", "%s: Unroll of the whole array has %d / %d elements, the array has %d", what, len(u1), len(u2), n)
				return
			}
			if u2[rr*cols+cc] != marker {
				x.fail(fam, "unroll-differs", tag+"unroll/large", "%s: after a write through a row view, Unroll()[%d] of the whole array is %v, the element is %v", what, rr*cols+cc, u2[rr*cols+cc], marker)
				return
			}
			for i := 0; i < n; i += 1 + i%11 {
				if i != rr*cols+cc && float64(u2[i]) != float64(fresh[i]) {
					x.fail(fam, "unroll-differs", tag+"unroll/large", "%s: Unroll()[%d] of the whole array is %v, the element is %v", what, i, u2[i], fresh[i])
					return
				}
			}
			// put the element back
			child.Set([]int{0, cc}, fresh[rr*cols+cc])
			// a bulk write of a handful of elements into a tiny contiguous view of the large array
			k2 := cols
			if k2 > 6 {
				k2 = 6
			}
			small := make([]T, k2)
			for i := range small {
				small[i] = T(211 + i)
			}
			tiny := a.Slice([]int{rr, 0}, []int{1, k2}, nil)
			tiny.CopyFrom(k.fromSlice(append([]T(nil), small...), []int{1, k2}))
			for i := 0; i < k2; i++ {
				if got := a.Get([]int{rr, i}); got != small[i] {
					x.fail(fam, "storage-differs", tag+"large-block", "%s: after CopyFrom of %d elements into a row view, element [%d %d] of the array is %v, %v was written", what, k2, rr, i, got, small[i])
					return
				}
				a.Set([]int{rr, i}, fresh[rr*cols+i])
			}
		}()
		if escaped != nil {
			x.fail(fam, "panic", tag+"panic/large", "%s panicked in the bulk read: %v", what, escaped)
			return
		}
	}
	// a large scattered view read in bulk: one column of an [n,2] or [n,3] array with more than 2^17
	// rows (Unroll, and as the source of a copy into a fresh contiguous array), Go-backed
	rows2 := (1 << 17) + 1 + w.Choose(40000)
	cols2 := 2 + w.Choose(2)
	col := w.Choose(cols2)
	big := make([]T, rows2*cols2)
	for i := range big {
		big[i] = T(1 + i%241)
	}
	ba := k.fromSlice(big, []int{rows2, cols2})
	what2 := fmt.Sprintf("%s array [%d %d]: column %d read in bulk", k.name, rows2, cols2, col)
	x.log = append(x.log, what2)
	var escaped interface{}
	func() {
		defer func() { escaped = recover() }()
		cv := ba.Slice([]int{0, col}, []int{rows2, 1}, nil)
		// (the copy first: a failure there belongs to the write family, one of Unroll to the bulk family)
		dst := k.newGo([]int{rows2, 1})
		dst.CopyFrom(cv)
		for i := 0; i < rows2; i += 1 + i%5 {
			if got := dst.Get([]int{i, 0}); got != big[i*cols2+col] {
				x.fail("write", "storage-differs", "go/large-block", "%s: after CopyFrom into a fresh array element %d is %v, the source view has %v", what2, i, got, big[i*cols2+col])
				return
			}
		}
		for i := rows2 - 40; i < rows2; i++ {
			if got := dst.Get([]int{i, 0}); got != big[i*cols2+col] {
				x.fail("write", "storage-differs", "go/large-block", "%s: after CopyFrom into a fresh array element %d is %v, the source view has %v", what2, i, got, big[i*cols2+col])
				return
			}
		}
		u := cv.Unroll()
		if len(u) != rows2 {
			x.fail("bulk", "unroll-differs", "go/unroll/large", "%s: Unroll has %d elements, the view has %d", what2, len(u), rows2)
			return
		}
		for i := 0; i < rows2; i++ {
			if u[i] != big[i*cols2+col] {
				x.fail("bulk", "unroll-differs", "go/unroll/large", "%s: Unroll()[%d] = %v, the view's element is %v", what2, i, u[i], big[i*cols2+col])
				return
			}
		}
	}()
	if escaped != nil {
		x.fail("bulk", "panic", "go/panic/large", "%s panicked: %v", what2, escaped)
	}
}
