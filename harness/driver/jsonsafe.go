package driver

import (
	"fmt"
	"math"

	"github.com/flowmatters/openwater-core/data"
	owjs "github.com/flowmatters/openwater-core/io/json"
)

// jsonSafeChecks: JsonSafeArray / JsonSafeValue on views (plain, gapped, stepped, nested) for
// every shift dimension: the result must be nested exactly like the view's dimensions from the
// shift dimension on (earlier dimensions fixed at index 0), with non-finite values replaced by
// the strings NaN, +Inf, -Inf.
func jsonSafeChecks(rc *RunCtx, o *Outcome) {
	w := rc.W
	rank := 1 + w.Choose(4)
	dims := make([]int, rank)
	for d := range dims {
		dims[d] = 1 + w.Choose(4)
	}
	emptyAxis := -1
	if w.Choose(8) == 7 {
		// an array with a zero extent (the outputs of a run over zero timesteps, the states of a
		// model without any): the nesting must still mirror the dimensions, with empty arrays
		emptyAxis = w.Choose(rank)
		dims[emptyAxis] = 0
	}
	n := product(dims)
	vals := make([]float64, n)
	for i := range vals {
		switch w.Choose(12) {
		case 9:
			vals[i] = math.NaN()
		case 10:
			vals[i] = math.Inf(1)
		case 11:
			vals[i] = math.Inf(-1)
		default:
			vals[i] = float64(i) + 0.5
		}
	}
	var view data.NDFloat64 = data.ArrayFromSliceFloat64(vals, dims)
	offs := make([]int, n)
	for i := range offs {
		offs[i] = i
	}
	shape := dims
	how := fmt.Sprintf("root%v", dims)
	depth := w.Choose(3)
	if emptyAxis >= 0 {
		depth = 0
		o.probe("jsonsafe_array_with_zero_extent")
	}
	for k := 0; k < depth; k++ {
		loc, sub, step := make([]int, rank), make([]int, rank), make([]int, rank)
		for d := 0; d < rank; d++ {
			step[d] = 1 + w.Choose(2)
			loc[d] = w.Choose(shape[d])
			sub[d] = 1 + w.Choose((shape[d]-1-loc[d])/step[d]+1)
		}
		var noffs []int
		idx, pidx := make([]int, rank), make([]int, rank)
		for i := 0; i < product(sub); i++ {
			for d := 0; d < rank; d++ {
				pidx[d] = loc[d] + idx[d]*step[d]
			}
			noffs = append(noffs, offs[flatIndex(pidx, shape)])
			rowMajorNext(idx, sub)
		}
		view = view.Slice(loc, sub, step)
		offs, shape = noffs, sub
		how += fmt.Sprintf(".Slice(%v,%v,%v)", loc, sub, step)
	}
	for shift := 0; shift < rank; shift++ {
		if emptyAxis >= 0 && shift > emptyAxis {
			// the dimensions before the shift dimension are fixed at index 0, which an empty
			// dimension does not have
			continue
		}
		var escaped interface{}
		var got []interface{}
		func() {
			defer func() { escaped = recover() }()
			got = owjs.JsonSafeArray(view, shift)
		}()
		o.Evals++
		o.SubHashes = append(o.SubHashes, hashStr(fmt.Sprintf("jsonsafe:%s:%d", how, shift)))
		if escaped != nil {
			o.fail("jsonsafe-panic", "jsonsafe/panic", "JsonSafeArray(%s, %d) panicked: %v", how, shift, escaped)
			return
		}
		idx := make([]int, rank)
		if e := compareNested(got, vals, offs, shape, idx, shift); e != nil {
			o.fail("jsonsafe-differs", "jsonsafe/differs", "JsonSafeArray(%s, shiftDim %d): %v", how, shift, e)
			return
		}
	}
	o.probe("jsonsafe_views")
	if depth >= 2 {
		o.probe("jsonsafe_nested_stepped_view")
	}
}

func compareNested(got []interface{}, vals []float64, offs, shape, idx []int, d int) error {
	if len(got) != shape[d] {
		return fmt.Errorf("level %d has %d entries, the view's dimension has %d", d, len(got), shape[d])
	}
	for i := 0; i < shape[d]; i++ {
		idx[d] = i
		if d == len(shape)-1 {
			want := vals[offs[flatIndex(idx, shape)]]
			if e := sameValue(got[i], want); e != nil {
				return fmt.Errorf("element %v: %v", idx, e)
			}
			if s, ok := got[i].(string); ok {
				if (math.IsNaN(want) && s != "NaN") || (math.IsInf(want, 1) && s != "+Inf") || (math.IsInf(want, -1) && s != "-Inf") {
					return fmt.Errorf("element %v: non-finite %v encoded as %q", idx, want, s)
				}
			}
			continue
		}
		sub, ok := got[i].([]interface{})
		if !ok {
			return fmt.Errorf("element %v at level %d is %T, expected a nested array (nesting must follow the dimensions)", idx[:d+1], d, got[i])
		}
		if sub == nil {
			return fmt.Errorf("element %v at level %d is a nil slice, which encodes as null instead of an array (nesting must follow the dimensions)", idx[:d+1], d)
		}
		if e := compareNested(sub, vals, offs, shape, idx, d+1); e != nil {
			return e
		}
	}
	idx[d] = 0
	return nil
}
