package driver

import (
	"math"
	"sort"
	"testing"

	"github.com/flowmatters/openwater-core/data"
	"github.com/flowmatters/openwater-core/data/cdata"
	_ "github.com/flowmatters/openwater-core/models"
	"github.com/flowmatters/openwater-core/sim"
	"verif/domains"
	"verif/simrt"
)

var catalogNames []string

func catalog() []string {
	if catalogNames == nil {
		for k := range sim.Catalog {
			catalogNames = append(catalogNames, k)
		}
		sort.Strings(catalogNames)
	}
	return catalogNames
}

// "C-backed" arrays wrap caller-owned memory outside the Go heap (mmap, freed at the end of the
// run by freeAllC); the buffer sits flush against a guard page.
func mk2(cBacked bool, r, c int, vals []float64) data.ND2Float64 {
	if cBacked {
		cb := allocC(r*c*8, true, false)
		copy(cb.floats(), vals)
		return cdata.NewFloat64CArray(cb.ptr, []int{r, c}).(data.ND2Float64)
	}
	buf := make([]float64, r*c)
	copy(buf, vals)
	return data.ArrayFromSliceFloat64(buf, []int{r, c}).(data.ND2Float64)
}

func mk3(cBacked bool, a, b, c int, vals []float64) data.ND3Float64 {
	if cBacked {
		cb := allocC(a*b*c*8, true, false)
		copy(cb.floats(), vals)
		return cdata.NewFloat64CArray(cb.ptr, []int{a, b, c}).(data.ND3Float64)
	}
	buf := make([]float64, a*b*c)
	copy(buf, vals)
	return data.ArrayFromSliceFloat64(buf, []int{a, b, c}).(data.ND3Float64)
}

// flat2 / flat3 read an array element by element (no Unroll: independent of the fast paths)
func flat2(a data.ND2Float64) []float64 {
	r, c := a.Len(0), a.Len(1)
	out := make([]float64, 0, r*c)
	for i := 0; i < r; i++ {
		for j := 0; j < c; j++ {
			out = append(out, a.Get2(i, j))
		}
	}
	return out
}

func flat3(a data.ND3Float64) []float64 {
	x, y, z := a.Len(0), a.Len(1), a.Len(2)
	out := make([]float64, 0, x*y*z)
	for i := 0; i < x; i++ {
		for j := 0; j < y; j++ {
			for k := 0; k < z; k++ {
				out = append(out, a.Get3(i, j, k))
			}
		}
	}
	return out
}

// paramLayout describes the row layout of a model's parameter matrix for table size maxDim.
type paramLayout struct {
	rows    int
	start   []int // first row of each parameter
	size    []int // rows of each parameter
	dimOf   []int // index of the dimension parameter governing parameter i, or -1
	dimName []string
}

func layoutOf(desc sim.ModelDescription, maxDim int) paramLayout {
	var l paramLayout
	idx := map[string]int{}
	for i, p := range desc.Parameters {
		idx[p.Name] = i
	}
	for _, p := range desc.Parameters {
		l.start = append(l.start, l.rows)
		sz := 1
		d := -1
		if len(p.Dimensions) > 0 {
			sz = maxDim
			d = idx[p.Dimensions[0]]
		}
		l.size = append(l.size, sz)
		l.dimOf = append(l.dimOf, d)
		l.rows += sz
	}
	return l
}

// repackColumn converts a column laid out for maxDim into the layout for the cell's own table
// length (the single-cell reference is built on the cell's own table, which the vectorised
// wrapper is supposed to make equivalent).
func repackColumn(desc sim.ModelDescription, col []float64, maxDim int) (own []float64, ownDim int) {
	if len(desc.Dimensions) == 0 {
		return cloneF(col), 0
	}
	l := layoutOf(desc, maxDim)
	// the (single) dimension parameter
	for i := range desc.Parameters {
		if l.dimOf[i] >= 0 {
			ownDim = int(col[l.start[l.dimOf[i]]])
			break
		}
	}
	for i := range desc.Parameters {
		if l.dimOf[i] < 0 {
			own = append(own, col[l.start[i]])
		} else {
			own = append(own, col[l.start[i]:l.start[i]+ownDim]...)
		}
	}
	return own, ownDim
}

// paramMatrix builds the rows x nSets matrix from columns.
func paramMatrix(cBacked bool, cols [][]float64) data.ND2Float64 {
	rows := len(cols[0])
	vals := make([]float64, rows*len(cols))
	for j, c := range cols {
		for i := 0; i < rows; i++ {
			vals[i*len(cols)+j] = c[i]
		}
	}
	return mk2(cBacked, rows, len(cols), vals)
}

// setupModel creates a fresh model object and applies the parameter matrix the way every
// front end does (FindDimensions -> InitialiseDimensions -> ApplyParameters).
func setupModel(name string, params data.ND2Float64) sim.TimeSteppingModel {
	m := sim.Catalog[name]()
	dims := m.FindDimensions(params)
	if len(dims) > 0 {
		m.InitialiseDimensions(dims)
	}
	m.ApplyParameters(params)
	return m
}

// oneCellModel builds a fresh single-cell model from one column (own-table layout).
func oneCellModel(name string, desc sim.ModelDescription, col []float64, maxDim int) sim.TimeSteppingModel {
	own, _ := repackColumn(desc, col, maxDim)
	return setupModel(name, paramMatrix(false, [][]float64{own}))
}

// initialStateRow returns the model's own initial state vector for one column.
func initialStateRow(name string, desc sim.ModelDescription, col []float64, maxDim int) []float64 {
	m := oneCellModel(name, desc, col, maxDim)
	st := m.InitialiseStates(1)
	return flat2(st)
}

// refRun runs one cell alone on private copies (fresh model object, Go-backed arrays) and
// returns outputs [nOut*T] and the final state row.  Must be called outside a simulation or
// from a task; the cell goroutine is a plain goroutine when the simulator is inactive.
func refRun(name string, desc sim.ModelDescription, col []float64, maxDim int, state []float64, inputs [][]float64, T int) (out []float64, fin []float64) {
	var crash *simrt.Crash
	s := simrt.Run(curT, simrt.Config{}, simrt.ReplayTape(nil), func() {
		out, fin = refRunRaw(name, desc, col, maxDim, state, inputs, T)
	})
	crash = s.Crash
	if s.Outcome != "" {
		msg := s.Outcome
		if crash != nil {
			msg = crash.Value + "\n" + crash.Stack
		}
		panic(refCrash{name, msg})
	}
	return
}

// refCrash is raised when the single-cell reference run itself crashes or hangs; the worker
// loop turns it into a "process-crash" violation of the run (the workloads stay inside each
// model's working domain, where no model may crash).
type refCrash struct{ Model, Msg string }

// curT is the worker's *testing.T (synctest needs one).
var curT *testing.T

func refRunRaw(name string, desc sim.ModelDescription, col []float64, maxDim int, state []float64, inputs [][]float64, T int) (out []float64, fin []float64) {
	m := oneCellModel(name, desc, col, maxDim)
	nIn := len(desc.Inputs)
	iv := make([]float64, nIn*T)
	for k := 0; k < nIn; k++ {
		copy(iv[k*T:(k+1)*T], inputs[k])
	}
	in := mk3(false, 1, nIn, T, iv)
	st := mk2(false, 1, len(state), state)
	o := mk3(false, 1, len(desc.Outputs), T, nil)
	m.Run(in, st, o)
	return flat3(o), flat2(st)
}

// drawColumns draws nSets parameter columns sharing one state-width class.
func drawColumns(w *simrt.Tape, name string, nSets int) (cols [][]float64, maxDim int) {
	// models with a variable-length state vector: in 40% of the draws the parameter sets are left
	// in different width classes
	mixed := (name == "GR4J" || name == "Lag") && nSets > 1 && w.Bool(40)
	corner := w.Bool(25) // a quarter of the cases draw half of their parameters from the ends of the ranges
	if domains.IsDimensioned(name) {
		maxDim = 1 + w.Choose(4) + 1 // usually 2..5 table rows
		if w.Choose(5) == 4 {
			maxDim = 6 + w.Choose(43) // every fifth table is long (up to 48 rows)
		}
	}
	// one set uses the full table, so FindDimensions == maxDim; it is not always the first one (with
	// more sets than cells it may be a set that no cell uses: the layout of the parameter rows is
	// still the one the full table implies)
	fullAt := 0
	if maxDim > 0 && nSets > 1 && w.Bool(50) {
		fullAt = w.Choose(nSets)
	}
	for j := 0; j < nSets; j++ {
		force := 0
		if j == fullAt && maxDim > 0 {
			force = maxDim
		}
		var c []float64
		if corner {
			c = domains.GenParams(cornerTape{w}, name, maxDim, force)
		} else {
			c = domains.GenParams(w, name, maxDim, force)
		}
		if j > 0 && !mixed {
			domains.ForceStateWidthClass(name, c, domains.StateWidthClass(name, cols[0]))
		}
		cols = append(cols, c)
	}
	if !mixed && nSets > 1 && w.Choose(10) == 9 {
		// near-equal sets: every set is the first one with each non-integer value moved by a few
		// parts in 10^10 (an ensemble of finite-difference perturbations): the cells still have
		// their own parameters
		base := cols[fullAt] // (the set that uses the full table, so that the table size stays what it is)
		for j := 0; j < nSets; j++ {
			if j == fullAt {
				continue
			}
			c := cloneF(base)
			for i, v := range c {
				if v != math.Floor(v) && !math.IsInf(v, 0) && !math.IsNaN(v) {
					c[i] = v * (1 + float64(1+w.Choose(9))*1e-10)
				}
			}
			cols[j] = c
		}
	}
	if mixed {
		// state vectors of different width are supported when the widest comes first (the state
		// array is sized from cell 0; narrower rows are zero padded)
		best := 0
		for j := range cols {
			if domains.StateWidthClass(name, cols[j]) > domains.StateWidthClass(name, cols[best]) {
				best = j
			}
		}
		cols[0], cols[best] = cols[best], cols[0]
	}
	return
}

// thresholdPairs: inputs that a kernel compares with a parameter (or with another input).
var thresholdPairs = map[string][][2]string{
	"USLEFineSedimentGeneration": {{"rainfall", "RainThreshold"}},
	"InstreamFineSediment":       {{"outflow", "bankFullFlow"}},
	"StorageDissolvedDecay":      {{"outflow", "bankFullFlow"}},
	"DynamicSednetGully":         {{"year", "YearDisturbance"}, {"year", "GullyEndYear"}},
	"DynamicSednetGullyAlt":      {{"year", "YearDisturbance"}, {"year", "GullyEndYear"}},
	"PartitionDemand":            {{"input", "@demand"}},
}

// snapCoincidences makes some input values coincide exactly with values the kernel compares them
// with: knots of the cell's own rating table, thresholds, another input series.  Random continuous
// values never sit exactly on a knot or a threshold, and tie-breaking there is where fast paths
// and caches disagree in the last bit.  All snapped values stay inside the model's domain.
func snapCoincidences(w *simrt.Tape, name string, desc sim.ModelDescription, col []float64, maxDim int, inputs [][]float64) bool {
	if len(inputs) == 0 || len(inputs[0]) == 0 || !w.Bool(30) {
		return false
	}
	T := len(inputs[0])
	inIdx := func(n string) int {
		for i, x := range desc.Inputs {
			if x == n {
				return i
			}
		}
		return -1
	}
	done := false
	if name == "RatingCurvePartition" {
		l := layoutOf(desc, maxDim)
		pi := paramIndex(desc, "inputAmount")
		n := int(col[l.start[paramIndex(desc, "nPts")]])
		for k := 0; k < 1+w.Choose(3); k++ {
			inputs[0][w.Choose(T)] = col[l.start[pi]+w.Choose(n)]
			done = true
		}
	}
	for _, pr := range thresholdPairs[name] {
		ii := inIdx(pr[0])
		if ii < 0 {
			continue
		}
		for k := 0; k < 1+w.Choose(2); k++ {
			t := w.Choose(T)
			if pr[1][0] == '@' {
				if jj := inIdx(pr[1][1:]); jj >= 0 {
					inputs[ii][t] = inputs[jj][t]
					done = true
				}
			} else if pj := paramIndex(desc, pr[1]); pj >= 0 {
				inputs[ii][t] = col[layoutOf(desc, maxDim).start[pj]]
				done = true
			}
		}
	}
	return done
}

// pickModel draws a model name: uniformly over the catalogue, but every fifth draw is taken from
// the models with special wrapper paths (table parameters, variable-length state vectors), which
// would otherwise be 4 of 41.
var specialModels = []string{"RatingCurvePartition", "Storage", "GR4J", "Lag"}

func pickModel(w *simrt.Tape) string {
	names := catalog()
	if w.Choose(5) == 4 {
		return specialModels[w.Choose(len(specialModels))]
	}
	return names[w.Choose(len(names))]
}

// cornerTape wraps a tape so that range draws (the 4096-step grid of domains.Float) land on one
// of the two ends of the range with probability 1/2: thresholds, clamps and "exactly zero"
// branches of the kernels only trigger there.
type cornerTape struct{ w *simrt.Tape }

func (c cornerTape) Choose(n int) int {
	if n == 4096 {
		switch c.w.Choose(4) {
		case 2:
			return 0
		case 3:
			return 4095
		}
	}
	return c.w.Choose(n)
}
