package driver

import (
	"syscall"
	"unsafe"
)

// Caller-owned "C" memory: anonymous mmap outside the Go heap.  With guard=true the buffer is
// placed flush against a PROT_NONE page (after it, or before it), and the slack on the other
// side of the buffer is filled with a canary pattern, so that an out-of-buffer access either
// faults (recoverable through debug.SetPanicOnFault) or is visible in the canary.

const pageSize = 4096
const canaryByte = 0xA5

type cbuf struct {
	region      []byte         // whole mapping
	ptr         unsafe.Pointer // first byte of the caller's buffer
	nbytes      int
	lo, hi      int // [lo,hi) offset of the buffer in region
	guardBefore bool
}

var liveCBufs []*cbuf

func allocC(nbytes int, guard bool, guardBefore bool) *cbuf {
	dataPages := (nbytes + pageSize - 1) / pageSize
	if dataPages == 0 {
		dataPages = 1
	}
	total := dataPages * pageSize
	if guard {
		total += pageSize
	}
	mem, err := syscall.Mmap(-1, 0, total, syscall.PROT_READ|syscall.PROT_WRITE, syscall.MAP_ANON|syscall.MAP_PRIVATE)
	if err != nil {
		panic("harness: mmap: " + err.Error())
	}
	c := &cbuf{region: mem, nbytes: nbytes, guardBefore: guardBefore}
	if guard && guardBefore {
		if err := syscall.Mprotect(mem[:pageSize], syscall.PROT_NONE); err != nil {
			panic("harness: mprotect: " + err.Error())
		}
		c.lo = pageSize
	} else if guard {
		if err := syscall.Mprotect(mem[total-pageSize:], syscall.PROT_NONE); err != nil {
			panic("harness: mprotect: " + err.Error())
		}
		c.lo = total - pageSize - nbytes
	}
	c.hi = c.lo + nbytes
	usableLo, usableHi := 0, total
	if guard && guardBefore {
		usableLo = pageSize
	} else if guard {
		usableHi = total - pageSize
	}
	for i := usableLo; i < usableHi; i++ {
		if i < c.lo || i >= c.hi {
			mem[i] = canaryByte
		}
	}
	c.ptr = unsafe.Pointer(&mem[c.lo])
	liveCBufs = append(liveCBufs, c)
	return c
}

// canaryIntact reports the first corrupted slack byte offset relative to the buffer start (or ok).
func (c *cbuf) canaryIntact() (int, bool) {
	total := len(c.region)
	usableLo, usableHi := 0, total
	if c.lo == pageSize && c.guardBefore {
		usableLo = pageSize
	} else if c.hi+pageSize == total {
		usableHi = total - pageSize
	}
	for i := usableLo; i < usableHi; i++ {
		if (i < c.lo || i >= c.hi) && c.region[i] != canaryByte {
			return i - c.lo, false
		}
	}
	return 0, true
}

func (c *cbuf) floats() []float64 {
	return unsafe.Slice((*float64)(c.ptr), c.nbytes/8)
}

func freeAllC() {
	for _, c := range liveCBufs {
		syscall.Munmap(c.region)
	}
	liveCBufs = liveCBufs[:0]
}

func unsafeSlice[T any](c *cbuf, n int) []T {
	if n == 0 {
		return nil
	}
	return unsafe.Slice((*T)(c.ptr), n)
}
