package driver

import (
	"runtime"
	"time"
	"encoding/json"
	"fmt"
	"math"
	"os"
	"os/exec"
	"strconv"

	"github.com/flowmatters/openwater-core/data"
	"github.com/flowmatters/openwater-core/sim"
	"verif/domains"
	"verif/simrt"
)

// engine "pure": C14.  A seeded history over a pool of model objects and argument sets:
// every Run whose arguments equal (bitwise) an earlier Run's must give bit-identical outputs
// and final states - on the same object again, on a fresh object, after other models ran, after
// the caller scribbled over the buffers of earlier calls, and while another model runs
// concurrently (as ow-sim runs model types of one generation).  Causality: the same arguments
// with the input series truncated at t, or with the tail after t replaced, must reproduce
// outputs [0,t).

func init() { engines["pure"] = enginePure }

type argSet struct {
	c          *cellCase // reuse the C04 workload shape (cells, sets, blocks)
	width      int
	memoOut    []float64 // [N][nOut][T] flattened, from the first full execution
	memoFin    []float64
	have       bool
	first      *liveBuffers // arrays of the first execution (never scribbled): re-used as they are
	siblingOf  int          // index of the argument set this one is a sibling of (valid if isSibling)
	hasSibling bool
	sharedPar  *sharedParams // parameter matrix object shared with the sibling(s), edited in place
}

// sharedParams: one parameter matrix OBJECT (a column range of a wider matrix, so that table
// parameters are non-contiguous views) whose contents the caller replaces in place between runs.
type sharedParams struct {
	view data.ND2Float64
	rows int
	sets int
}

func newSharedParams(rows, sets int) *sharedParams {
	wide := data.NewArray2DFloat64(rows, sets+2)
	v := wide.Slice([]int{0, 1}, []int{rows, sets}, nil).(data.ND2Float64)
	return &sharedParams{view: v, rows: rows, sets: sets}
}

func (sp *sharedParams) load(cols [][]float64) {
	for j, c := range cols {
		for i := 0; i < sp.rows; i++ {
			sp.view.Set2(i, j, c[i])
		}
	}
}

// objDims remembers the table dimensions a model object was initialised with (per run).
var objDims = map[sim.TimeSteppingModel]string{}
var skipReinit bool

type liveBuffers struct {
	in  data.ND3Float64
	st  data.ND2Float64
	out data.ND3Float64
	par data.ND2Float64
}

func scribble(b *liveBuffers, v float64) {
	if b == nil {
		return
	}
	fill3 := func(a data.ND3Float64) {
		for i := 0; i < a.Len(0); i++ {
			for j := 0; j < a.Len(1); j++ {
				for k := 0; k < a.Len(2); k++ {
					a.Set3(i, j, k, v)
				}
			}
		}
	}
	fill2 := func(a data.ND2Float64) {
		for i := 0; i < a.Len(0); i++ {
			for j := 0; j < a.Len(1); j++ {
				a.Set2(i, j, v)
			}
		}
	}
	fill3(b.in)
	fill3(b.out)
	fill2(b.st)
	fill2(b.par)
}

// execArgs runs argument set a on obj (nil = fresh object); variant 0 full, 1 truncated at cut,
// 2 tail after cut replaced.  Returns outputs [N*nOut*T'] and final states.
func execArgs(a *argSet, obj sim.TimeSteppingModel, variant, cut int, tailSeed float64, reuse bool, shared bool) (sim.TimeSteppingModel, *liveBuffers, []float64, []float64, int) {
	c := a.c
	nIn, nOut := len(c.desc.Inputs), len(c.desc.Outputs)
	T := c.T
	if variant == 1 {
		T = cut
	}
	iv := make([]float64, c.I*nIn*T)
	for b := 0; b < c.I; b++ {
		for x := 0; x < nIn; x++ {
			for t := 0; t < T; t++ {
				v := c.inBlocks[b][x][t]
				if variant == 2 && t >= cut {
					// a different, still valid, tail: permute within the series
					v = c.inBlocks[b][x][cut+(t-cut+1+int(tailSeed))%(c.T-cut)]
				}
				iv[(b*nIn+x)*T+t] = v
			}
		}
	}
	bufs := &liveBuffers{}
	if shared && a.sharedPar != nil {
		// the caller edits its parameter matrix in place and applies the same object again
		a.sharedPar.load(c.cols)
		bufs.par = a.sharedPar.view
		bufs.in = mk3(c.CIn, c.I, nIn, T, iv)
	} else if reuse && a.first != nil && variant == 0 {
		// the caller passes the very same (unmodified by the caller) input and parameter
		// arrays again
		bufs.par, bufs.in = a.first.par, a.first.in
	} else {
		bufs.par = paramMatrix(c.CPar, c.cols)
		bufs.in = mk3(c.CIn, c.I, nIn, T, iv)
	}
	sv := make([]float64, 0, c.N*a.width)
	for i := 0; i < c.N; i++ {
		sv = append(sv, c.stateRows[i]...)
	}
	// where the arrays live is not an argument either: every third execution has its states and
	// outputs in the other kind of memory (Go-allocated instead of caller-owned C memory, or the
	// other way round)
	cst, cout := c.CSt, c.COut
	if envTick%3 == 2 {
		cst, cout = !cst, !cout
	}
	bufs.st = mk2(cst, c.N, a.width, sv)
	bufs.out = mk3(cout, c.N, nOut, T, nil)
	if obj == nil {
		obj = sim.Catalog[c.Model]()
	}
	// the dimensions are asked of the object itself or - like ow-sim - of a scratch object
	finder := obj
	if scratchFind {
		finder = sim.Catalog[c.Model]()
	}
	dims := finder.FindDimensions(bufs.par)
	if len(dims) > 0 {
		// like ow-sim, which initialises the dimensions of a model object once and then applies
		// parameters before every run: skip the re-initialisation when the object already has
		// these dimensions
		key := fmt.Sprint(dims)
		if objDims[obj] != key || !skipReinit {
			obj.InitialiseDimensions(dims)
		}
		objDims[obj] = key
	}
	obj.ApplyParameters(bufs.par)
	// the environment is not an argument: consecutive executions see different process time zones
	// (zones with daylight saving on both hemispheres, and UTC)
	if len(envZones) > 0 {
		time.Local = envZones[(envTick+envZoneShift)%len(envZones)]
	}
	// ... and different processor counts
	runtime.GOMAXPROCS([]int{1, 2, 3, 16, 6}[(envTick+envZoneShift)%5])
	envTick++
	obj.Run(bufs.in, bufs.st, bufs.out)
	return obj, bufs, flat3(bufs.out), flat2(bufs.st), T
}

var scratchFind bool

var (
	envZones     []*time.Location
	envTick      int
	envZoneShift int
)

func init() {
	for _, n := range []string{"UTC", "America/New_York", "Australia/Sydney", "Europe/Berlin"} {
		if l, err := time.LoadLocation(n); err == nil {
			envZones = append(envZones, l)
		}
	}
	if len(envZones) < 3 {
		envZones = nil // no time zone database here: no variation
	}
	envZoneShift, _ = strconv.Atoi(os.Getenv("VERIF_ZONE_SHIFT"))
}

func enginePure(rc *RunCtx) *Outcome {
	o := &Outcome{}
	w := rc.W
	envTick = int(rc.Seed % 60) // the environment sequence of a run is a function of the run's seed
	nSets := 2 + w.Choose(3)
	var sets []*argSet
	var modelsUsed []string
	for i := 0; i < nSets; i++ {
		c := drawCellCase(w, 3, 16)
		c.DN, c.DO, c.DT = 0, 0, 0
		if i == 0 && c.Model != "Storage" && c.Model != "Sacramento" && c.Model != "StorageRouting" && !c.Warm && w.Choose(40) == 39 {
			// a long series (4096-6600 timesteps: where a kernel might start splitting its work)
			c.T = 4096 + w.Choose(2500)
			c.inBlocks = nil
			for b := 0; b < c.I; b++ {
				c.inBlocks = append(c.inBlocks, domains.GenInputs(w, c.Model, c.cols[b%c.P], c.MaxDim, c.T))
			}
			o.probe("argument_set_with_more_than_4096_timesteps")
		}
		if c.T < 2 {
			c.T = 2
			// regenerate inputs of the right length
			c.inBlocks = nil
			for b := 0; b < c.I; b++ {
				c.inBlocks = append(c.inBlocks, domains.GenInputs(w, c.Model, c.cols[b%c.P], c.MaxDim, c.T))
			}
		}
		sets = append(sets, &argSet{c: c, width: len(c.stateRows[0])})
		modelsUsed = append(modelsUsed, c.Model)
		if w.Bool(45) && len(c.stateRows[0]) == len(initialStateRow(c.Model, c.desc, c.cols[0], c.MaxDim)) {
			// a sibling: same model and array shapes, other values - used alternately on the same
			// objects, and through one parameter array object that the caller edits in place
			sb := drawSibling(w, c)
			if len(sb.stateRows[0]) == len(c.stateRows[0]) {
				sets = append(sets, &argSet{c: sb, width: len(sb.stateRows[0]), siblingOf: len(sets) - 1})
				sets[len(sets)-2].hasSibling = true
				modelsUsed = append(modelsUsed, sb.Model+"(sibling)")
			}
		}
	}
	for i, a := range sets {
		if a.hasSibling {
			sp := newSharedParams(len(a.c.cols[0]), a.c.P)
			a.sharedPar = sp
			for _, b := range sets[i+1:] {
				if b.siblingOf == i && b.c.Model == a.c.Model && len(b.c.cols[0]) == sp.rows && b.c.P == sp.sets {
					b.sharedPar = sp
				}
			}
		}
	}
	// fresh-process oracle (sampled): the first execution of every argument set is repeated in a
	// brand-new process that runs nothing else; the results must be bit-identical - nothing that
	// earlier executions left behind in package-level state may influence them
	if only := os.Getenv("VERIF_PRISTINE_SET"); only != "" {
		k, _ := strconv.Atoi(only)
		if k < len(sets) {
			s := simrt.Run(rc.T, simrt.Config{}, simrt.ReplayTape(nil), func() {
				_, _, out, fin, _ := execArgs(sets[k], nil, 0, 0, 0, false, false)
				o.Detail = map[string]interface{}{"pristine_digest": fmt.Sprintf("%x", digestFloats(out, fin))}
			})
			if s.Outcome != "" {
				o.Detail = map[string]interface{}{"pristine_digest": "crash:" + s.Outcome}
			}
		}
		return o
	}
	freshSample := w.Choose(25) == 24
	for _, a := range sets {
		if a.c.NearEqual {
			freshSample = true // twins with nearly equal parameters: always compare with fresh processes
		}
	}
	workPrefix := append([]int(nil), w.Rec...)
	nOps := 8 + w.Choose(25)
	if rc.Tier == "thorough" {
		nOps = 10 + w.Choose(31)
	}
	o.Sample = map[string]interface{}{"argument_sets": modelsUsed, "operations": nOps}
	objects := map[string][]sim.TimeSteppingModel{}
	var prev *liveBuffers
	opLog := []string{}

	check := func(a *argSet, ai int, out, fin []float64, variant, cut, T int, how string) bool {
		c := a.c
		nOut := len(c.desc.Outputs)
		if variant == 0 && !a.have {
			a.memoOut, a.memoFin, a.have = out, fin, true
			return true
		}
		if !a.have {
			return true
		}
		limit := T
		if variant != 0 {
			limit = cut
		}
		for i := 0; i < c.N; i++ {
			for k := 0; k < nOut; k++ {
				for t := 0; t < limit; t++ {
					o.Checks++
					g, e := out[(i*nOut+k)*T+t], a.memoOut[(i*nOut+k)*c.T+t]
					if !bitsEq(g, e) {
						cls, key := "not-reproducible", c.Model+"/rerun"
						if variant != 0 {
							cls, key = "not-causal", c.Model+"/causal"
						}
						o.fail(cls, key, "%s: cell %d output %s[%d] = %v, the first execution of the same arguments gave %v (%s; history: %v)",
							c.Model, i, c.desc.Outputs[k], t, g, e, how, opLog)
						return false
					}
				}
			}
		}
		if variant == 0 {
			for j := range fin {
				o.Checks++
				if !bitsEq(fin[j], a.memoFin[j]) {
					o.fail("not-reproducible", c.Model+"/rerun", "%s: final state[%d] = %v, the first execution of the same arguments gave %v (%s; history: %v)", c.Model, j, fin[j], a.memoFin[j], how, opLog)
					return false
				}
			}
		}
		return true
	}

	objDims = map[sim.TimeSteppingModel]string{}
	skipReinit = w.Bool(70)
	scratchFind = w.Bool(50)
	s := simrt.Run(rc.T, simrt.Config{DeepPct: 20}, rc.S, func() {
		// pristine memo: every argument set once, on a fresh object
		for ai, a := range sets {
			_, b, out, fin, T := execArgs(a, nil, 0, 0, 0, false, false)
			check(a, ai, out, fin, 0, 0, T, "first execution")
			a.first = b
		}
		if freshSample && o.Class == "" {
			for ai, a := range sets {
				if !a.have {
					continue
				}
				got := fmt.Sprintf("%x", digestFloats(a.memoOut, a.memoFin))
				want, err := pristineInFreshProcess(rc, workPrefix, ai)
				if err != nil {
					panic("harness: fresh-process oracle: " + err.Error())
				}
				o.probe("first_execution_repeated_in_a_fresh_process")
				if want != got {
					o.fail("depends-on-process-history", a.c.Model+"/fresh-process", "%s (argument set %d of %v): its first execution in this history differs from the same execution in a fresh process that runs nothing else (digests %s vs %s): results depend on what ran earlier in the process", a.c.Model, ai, modelsUsed, got, want)
					return
				}
			}
		}
		for op := 0; op < nOps && o.Class == ""; op++ {
			if w.Bool(10) && len(sets) < 9 {
				// a continuation (the next window of a hot-started simulation): the final states of an
				// earlier execution become the initial states of a NEW argument set with the same
				// model, parameters and inputs.  It is executed at once - the moment of the hand-over -
				// and again later by the ordinary operations: a result that depends on the process
				// having just produced these very states (a side channel keyed by them) differs between
				// the two
				src := sets[w.Choose(len(sets))]
				if src.have && len(src.memoFin) == src.c.N*src.width {
					cc := *src.c
					cc.stateRows = nil
					for i := 0; i < cc.N; i++ {
						cc.stateRows = append(cc.stateRows, cloneF(src.memoFin[i*src.width:(i+1)*src.width]))
					}
					if w.Bool(50) && cc.T >= 2 {
						// the forcing of the new window carries on from where the earlier one stopped: the
						// last values persist for the first half of the window (a recession that has
						// levelled out, a regulated release), then the series of the earlier window follows
						h := (cc.T + 1) / 2
						nb := make([][][]float64, len(src.c.inBlocks))
						for b := range nb {
							nb[b] = make([][]float64, len(src.c.inBlocks[b]))
							for x, ser := range src.c.inBlocks[b] {
								ns := make([]float64, len(ser))
								for t := range ns {
									if t < h {
										ns[t] = ser[len(ser)-1]
									} else {
										ns[t] = ser[t-h]
									}
								}
								nb[b][x] = ns
							}
						}
						cc.inBlocks = nb
						o.probe("continuation_whose_forcing_persists_from_the_earlier_window")
					}
					d := &argSet{c: &cc, width: src.width}
					sets = append(sets, d)
					opLog = append(opLog, fmt.Sprintf("continuation(%d:%s from the final states of an earlier set)", len(sets)-1, cc.Model))
					_, b, out, fin, T := execArgs(d, nil, 0, 0, 0, false, false)
					check(d, len(sets)-1, out, fin, 0, 0, T, "first execution of a continuation")
					d.first = b
					o.probe("continuation_from_the_final_states_of_an_earlier_execution")
					continue
				}
			}
			ai := w.Choose(len(sets))
			a := sets[ai]
			kind := w.Choose(8)
			variant, cut := 0, 0
			if kind == 5 {
				variant = 1
			} else if kind == 6 {
				variant = 2
			}
			if variant != 0 {
				cut = 1 + w.Choose(a.c.T-1)
			}
			if w.Bool(40) {
				scribble(prev, -12345.678+float64(op))
				o.probe("caller_scribbled_over_previous_buffers")
			}
			var obj sim.TimeSteppingModel
			pool := objects[a.c.Model]
			how := "fresh object"
			if len(pool) > 0 && w.Bool(60) {
				obj = pool[w.Choose(len(pool))]
				how = "same object again"
				o.probe("rerun_on_used_object")
			}
			if kind == 7 && len(sets) > 1 {
				// two different argument sets concurrently, as two tasks
				bi := (ai + 1 + w.Choose(len(sets)-1)) % len(sets)
				b := sets[bi]
				opLog = append(opLog, fmt.Sprintf("concurrent(%d:%s,%d:%s)", ai, a.c.Model, bi, b.c.Model))
				done := make(chan int)
				var outA, finA, outB, finB []float64
				var TA, TB int
				simrt.Go("pure:concurrent-a", func() {
					_, _, outA, finA, TA = execArgs(a, obj, 0, 0, 0, false, false)
					simrt.Yield("pure:a<")
					done <- 1
					simrt.Yield("pure:a>")
				})
				simrt.Go("pure:concurrent-b", func() {
					_, _, outB, finB, TB = execArgs(b, nil, 0, 0, 0, false, false)
					simrt.Yield("pure:b<")
					done <- 2
					simrt.Yield("pure:b>")
				})
				for k := 0; k < 2; k++ {
					simrt.Yield("pure:join<")
					<-done
					simrt.Yield("pure:join>")
				}
				o.probe("two_models_concurrently")
				o.Nontrivial = true
				if check(a, ai, outA, finA, 0, 0, TA, "while "+b.c.Model+" ran concurrently, "+how) {
					check(b, bi, outB, finB, 0, 0, TB, "while "+a.c.Model+" ran concurrently, fresh object")
				}
				continue
			}
			if obj != nil && a.c.MaxDim > 0 && w.Bool(50) {
				// a query: what dimensions would ANOTHER parameter matrix need?  FindDimensions answers
				// without changing the object (front ends use it on objects they go on using)
				od := a.c.MaxDim + 1 + w.Choose(3)
				if w.Bool(40) && a.c.MaxDim > 2 {
					od = 2 + w.Choose(a.c.MaxDim-2)
				}
				other := domains.GenParams(w, a.c.Model, od, od)
				obj.FindDimensions(paramMatrix(false, [][]float64{other}))
				opLog = append(opLog, fmt.Sprintf("FindDimensions(another matrix, table size %d) on the object of %d:%s", od, ai, a.c.Model))
				o.probe("dimension_query_with_another_matrix_between_runs")
			}
			opLog = append(opLog, fmt.Sprintf("run(%d:%s,%s,variant=%d,cut=%d)", ai, a.c.Model, how, variant, cut))
			reuse := variant == 0 && w.Bool(35)
			if reuse {
				how += ", same input and parameter arrays as the first call"
				o.probe("caller_reuses_input_and_parameter_arrays")
			}
			shared := false
			if !reuse && a.sharedPar != nil && w.Bool(60) {
				shared = true
				how += ", parameters edited in place in the parameter matrix object shared with the sibling"
				o.probe("parameter_matrix_object_edited_in_place_between_runs")
			}
			obj2, bufs, out, fin, T := execArgs(a, obj, variant, cut, float64(w.Choose(5)), reuse, shared)
			if obj == nil {
				objects[a.c.Model] = append(objects[a.c.Model], obj2)
			}
			if !reuse && !shared {
				prev = bufs
			}
			if variant == 1 {
				o.probe("input_truncated")
			} else if variant == 2 {
				o.probe("input_tail_replaced")
			}
			check(a, ai, out, fin, variant, cut, T, how)
			if op > 0 {
				o.Nontrivial = true
			}
		}
	})
	o.Sim = s
	switch s.Outcome {
	case "":
	case "crash":
		o.fail("process-crash", "crash", "panic at %s: %s\n%s (history: %v)", s.Crash.Site, s.Crash.Value, s.Crash.Stack, opLog)
	default:
		o.fail("no-termination", s.Outcome, "%s; blocked: %v", s.Outcome, s.Blocked)
	}
	return o
}

func digestFloats(vs ...[]float64) uint64 {
	h := uint64(1469598103934665603)
	for _, v := range vs {
		h = fnv(h, uint64(len(v)))
		for _, x := range v {
			h = fnv(h, math.Float64bits(x))
		}
	}
	return h
}

// pristineInFreshProcess re-executes this binary as a new process that regenerates the same
// argument sets from the workload-tape prefix and runs only the first execution of set k.
func pristineInFreshProcess(rc *RunCtx, workPrefix []int, k int) (string, error) {
	dir, err := os.MkdirTemp("", "owpristine.")
	if err != nil {
		return "", err
	}
	defer os.RemoveAll(dir)
	rf := ReplayFile{Property: rc.Prop, Engine: rc.Engine, RunSeed: rc.Seed, Index: rc.Index, Tier: rc.Tier, Mode: "tapes", Work: workPrefix}
	b, _ := json.Marshal(rf)
	if err := os.WriteFile(dir+"/replay.json", b, 0644); err != nil {
		return "", err
	}
	cmd := exec.Command(os.Args[0], "-test.run", "^TestWorker$", "-test.count=1", "-test.cpu", "1")
	cmd.Env = append(os.Environ(), "VERIF_REPLAY="+dir+"/replay.json", "VERIF_OUT="+dir+"/out.jsonl", "VERIF_PRISTINE_SET="+strconv.Itoa(k))
	if out, err := cmd.CombinedOutput(); err != nil {
		return "", fmt.Errorf("child failed: %v: %.300s", err, out)
	}
	data, err := os.ReadFile(dir + "/out.jsonl")
	if err != nil {
		return "", err
	}
	var rec struct {
		Detail map[string]interface{} `json:"detail"`
	}
	if err := json.Unmarshal(data[:indexByte(data, '\n')], &rec); err != nil {
		return "", err
	}
	d, _ := rec.Detail["pristine_digest"].(string)
	if d == "" {
		return "", fmt.Errorf("no digest in child output: %.200s", data)
	}
	return d, nil
}

func indexByte(b []byte, c byte) int {
	for i, x := range b {
		if x == c {
			return i
		}
	}
	return len(b)
}
