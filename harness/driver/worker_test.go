package driver

import (
	"bufio"
	"encoding/json"
	"fmt"
	"os"
	"runtime"
	"runtime/debug"
	"strings"
	"sync/atomic"
	"testing"
	"time"

	"verif/simrt"
)

// ReplayFile is the replay record of one run (also the record of a violation).
type ReplayFile struct {
	Property  string                 `json:"property"`
	Engine    string                 `json:"engine"`
	Class     string                 `json:"class"`
	Key       string                 `json:"key"`
	Message   string                 `json:"message"`
	BaseSeed  uint64                 `json:"verif_seed"`
	Index     int                    `json:"index"`
	RunSeed   uint64                 `json:"run_seed"`
	Tier      string                 `json:"tier"`
	Mode      string                 `json:"mode"`       // "tapes" or "generate"
	RangeFrom int                    `json:"range_from"` // first run index of the worker that found the violation
	Work      []int                  `json:"work"`
	Sched     []int                  `json:"sched"`
	Race      bool                   `json:"race_build"`
	Minimised map[string]int         `json:"minimised,omitempty"`
	Sample    interface{}            `json:"sample,omitempty"`
	Detail    map[string]interface{} `json:"detail,omitempty"`
	Events    []simrt.Event          `json:"events,omitempty"`
}

type Summary struct {
	Type         string         `json:"type"`
	Runs         int            `json:"runs"`
	Evals        int64          `json:"evals"`
	Nontrivial   int            `json:"nontrivial"`
	Hashes       []string       `json:"hashes"`
	HashesCapped bool           `json:"hashes_capped"`
	Probes       map[string]int `json:"probes"`
	Faults       map[string]int `json:"faults"`
	Outcomes     map[string]int `json:"outcomes"`
	Steps        int64          `json:"steps"`
	Picks        int64          `json:"picks"`
	Switches     int64          `json:"switches"`
	Preemptions  int64          `json:"preemptions"`
	Tasks        int64          `json:"tasks"`
	ClockJumps   int64          `json:"clock_jumps"`
	LockWaits    int64          `json:"lock_waits"`
	SimNanos     int64          `json:"sim_ns"`
	Checks       int64          `json:"checks"`
	SwitchPairs  []string       `json:"switch_pairs"`
	Samples      []interface{}  `json:"samples"`
	WallS        float64        `json:"wall_s"`
	From, To     int
	Done         int `json:"done"`
	Violations   int `json:"violations"`
}

func runSeed(base uint64, prop string, idx int) uint64 {
	return simrt.Mix(simrt.Mix(base, hashStr(prop)), uint64(idx))
}

// runOnce executes one run; harness-side panics that signal a crash of the code under test
// (refCrash) become violations, anything else propagates (exit 2 territory).
// procsFor: the number of processors the code under test is told it has (runtime.GOMAXPROCS) varies
// per run and is a function of the run's seed, so that a replay sees the same value.  The simulated
// schedule does not depend on it (one task runs at a time); code that sizes pools, semaphores or
// work splits from GOMAXPROCS does.
func procsFor(seed uint64) int { return []int{1, 1, 2, 16, 3, 6, 1, 12}[(seed>>9)%8] }

func runOnce(eng Engine, rc *RunCtx) (o *Outcome) {
	runtime.GOMAXPROCS(procsFor(rc.Seed))
	defer freeAllC()
	defer func() {
		if r := recover(); r != nil {
			if rcr, ok := r.(refCrash); ok {
				o = &Outcome{}
				o.fail("process-crash", rcr.Model+"/reference-crash", "%s: the single-cell reference run crashed: %s", rcr.Model, rcr.Msg)
				return
			}
			panic(fmt.Sprintf("harness panic in run index %d seed %d: %v\n%s", rc.Index, rc.Seed, r, debug.Stack()))
		}
	}()
	return eng(rc)
}

// ---- per-run wall-clock watchdog: a run of the code under test that does not finish (a kernel
// spinning on degenerate values cannot be interrupted) is reported as a "hang" violation of the
// current run, with the spinning function as key, and the worker exits with status 3.
var (
	wdStart   atomic.Int64 // unix nanos of the current run's start, 0 = idle
	wdReport  func(class, key, msg string)
	wdTimeout = 120 * time.Second
)

func startWatchdog() {
	if v := envInt("VERIF_RUN_TIMEOUT_S", 0); v > 0 {
		wdTimeout = time.Duration(v) * time.Second
	}
	if simrt.RaceBuild {
		// the race detector slows kernels down by an order of magnitude
		wdTimeout *= 5
	}
	// the limit applies to one simulated execution, not to a run made of several
	simrt.RunStartHook = func() {
		if wdStart.Load() != 0 {
			wdStart.Store(time.Now().UnixNano())
		}
	}
	go func() {
		// The limit is counted in the watchdog's own half-second ticks that fall inside one and the
		// same run, not as a difference of wall-clock readings: when the whole virtual machine is
		// paused (a snapshot) or the clock is stepped, a wall-clock difference jumps by minutes while
		// the run made no progress at all (five workers of a thorough C03 reported "hangs" at once
		// that way, none reproducible; DESIGN B.2).  A tick is one sleep that returned, so a pause
		// costs one tick.
		var lastRun int64
		ticks := 0
		for {
			time.Sleep(500 * time.Millisecond)
			st := wdStart.Load()
			if st == 0 || st != lastRun {
				lastRun, ticks = st, 0
				continue
			}
			ticks++
			if time.Duration(ticks)*500*time.Millisecond < wdTimeout || time.Since(time.Unix(0, st)) < wdTimeout {
				continue
			}
			buf := make([]byte, 1<<20)
			n := runtime.Stack(buf, true)
			stacks := string(buf[:n])
			site := "unknown"
			for _, g := range strings.Split(stacks, "\n\n") {
				if (strings.Contains(g, "[running") || strings.Contains(g, "[runnable")) && strings.Contains(g, "openwater-core/") {
					site = crashSite(g)
					break
				}
			}
			if wdReport != nil {
				wdReport("hang", "hang@"+site, fmt.Sprintf("the run did not finish within %v of wall-clock time; the code under test is busy in %s (a kernel iterating on degenerate values cannot be interrupted: the caller never gets an answer)", wdTimeout, site))
			}
			os.Exit(3)
		}
	}()
}

func TestWorker(t *testing.T) {
	prop := os.Getenv("VERIF_PROP")
	if prop == "" {
		t.Skip("not a worker invocation")
	}
	curT = t
	if os.Getenv("VERIF_KEEP_STDOUT") == "" {
		// progress messages of the code under test (ow-sim prints several lines per generation, kernels
		// print warnings) are of no use here; stderr (panics, race reports) is kept
		if null, err := os.OpenFile(os.DevNull, os.O_WRONLY, 0); err == nil {
			os.Stdout = null
		}
	}
	engName := os.Getenv("VERIF_ENGINE")
	eng := engines[engName]
	if eng == nil {
		t.Fatalf("unknown engine %q", engName)
	}
	base := envU64("VERIF_SEED", 1)
	tier := os.Getenv("VERIF_TIER")
	if tier == "" {
		tier = "quick"
	}
	outPath := os.Getenv("VERIF_OUT")
	outF, err := os.Create(outPath)
	if err != nil {
		t.Fatal(err)
	}
	defer outF.Close()
	out := bufio.NewWriter(outF)
	defer out.Flush()
	emit := func(v interface{}) {
		out.Write(mustJSON(v))
		out.WriteByte('\n')
		out.Flush()
	}

	if rp := os.Getenv("VERIF_REPLAY"); rp != "" {
		b, err := os.ReadFile(rp)
		if err != nil {
			t.Fatal(err)
		}
		var rf ReplayFile
		if err := json.Unmarshal(b, &rf); err != nil {
			t.Fatal(err)
		}
		rc := &RunCtx{Prop: rf.Property, Engine: rf.Engine, Seed: rf.RunSeed, Index: rf.Index, T: t, Tier: rf.Tier, Replay: true}
		if rf.Mode == "generate" {
			rc.W, rc.S = simrt.NewTape(simrt.Mix(rf.RunSeed, 1)), simrt.NewTape(simrt.Mix(rf.RunSeed, 2))
			rc.Replay = false
		} else {
			rc.W, rc.S = simrt.ReplayTape(rf.Work), simrt.ReplayTape(rf.Sched)
		}
		os.WriteFile(outPath+".cur", []byte(fmt.Sprintf("%d %d\n", rf.Index, rf.RunSeed)), 0644)
		wdReport = func(class, key, msg string) {
			emit(map[string]interface{}{"type": "replay", "class": class, "key": key, "message": msg})
		}
		startWatchdog()
		wdStart.Store(time.Now().UnixNano())
		o := runOnce(eng, rc)
		wdStart.Store(0)
		emit(map[string]interface{}{"type": "replay", "class": o.Class, "key": o.Key, "message": o.Msg, "extra": o.Extra, "detail": o.Detail})
		return
	}

	digest := os.Getenv("VERIF_DIGEST") != ""
	from, to := envInt("VERIF_FROM", 0), envInt("VERIF_TO", 1)
	budget := time.Duration(envInt("VERIF_BUDGET_S", 3600)) * time.Second
	start := time.Now()
	sum := &Summary{Type: "summary", Probes: map[string]int{}, Faults: map[string]int{}, Outcomes: map[string]int{}, From: from, To: to}
	hashes := map[uint64]bool{}
	pairs := map[string]bool{}
	seenKeys := map[string]bool{}
	const hashCap = 400000
	cur, _ := os.Create(outPath + ".cur")
	defer cur.Close()
	var curIdx int
	var curSeed uint64
	wdReport = func(class, key, msg string) {
		rf := &ReplayFile{Property: prop, Engine: engName, Class: class, Key: key, Message: msg, BaseSeed: base, Index: curIdx,
			RunSeed: curSeed, Tier: tier, Mode: "generate", Race: simrt.RaceBuild}
		emit(map[string]interface{}{"type": "violation", "replay": rf})
	}
	startWatchdog()
	for i := from; i < to; i++ {
		if time.Since(start) > budget {
			break
		}
		seed := runSeed(base, prop, i)
		cur.Truncate(0)
		cur.WriteAt([]byte(fmt.Sprintf("%d %d\n", i, seed)), 0)
		rc := &RunCtx{Prop: prop, Engine: engName, Seed: seed, Index: i, T: t, Tier: tier,
			W: simrt.NewTape(simrt.Mix(seed, 1)), S: simrt.NewTape(simrt.Mix(seed, 2))}
		curIdx, curSeed = i, seed
		wdStart.Store(time.Now().UnixNano())
		o := runOnce(eng, rc)
		wdStart.Store(0)
		if digest {
			h := fnv(rc.W.Hash(), rc.S.Hash())
			h = fnv(h, hashStr(o.Class+"|"+o.Key))
			h = fnv(h, uint64(o.Checks))
			if o.Sim != nil {
				h = fnv(h, uint64(o.Sim.Stats.Steps))
				h = fnv(h, uint64(o.Sim.Stats.Switches))
				h = fnv(h, uint64(o.Sim.Stats.SimNanos))
				h = fnv(h, uint64(o.Sim.Stats.Tasks))
				h = fnv(h, uint64(o.Sim.Seq))
				for _, tr := range o.Sim.Traces {
					h = fnv(h, hashStr(tr.Task+tr.Name))
				}
			}
			emit(map[string]interface{}{"type": "digest", "index": i, "d": fmt.Sprintf("%x", h)})
		}
		sum.Runs++
		if o.Evals > 0 {
			sum.Evals += int64(o.Evals)
		} else {
			sum.Evals++
		}
		sum.Done = i + 1
		sum.Checks += int64(o.Checks)
		h := fnv(rc.W.Hash(), rc.S.Hash())
		for _, sh := range o.SubHashes {
			sum.Nontrivial++
			sh = fnv(h, sh)
			if len(hashes) < hashCap {
				hashes[sh] = true
			} else {
				sum.HashesCapped = true
			}
		}
		if o.Nontrivial && len(o.SubHashes) == 0 {
			if !hashes[h] {
				if len(hashes) < hashCap {
					hashes[h] = true
				} else {
					sum.HashesCapped = true
				}
			}
			sum.Nontrivial++
		}
		for k, v := range o.Probes {
			sum.Probes[k] += v
		}
		for k, v := range o.Faults {
			sum.Faults[k] += v
		}
		if s := o.Sim; s != nil {
			sum.Steps += int64(s.Stats.Steps)
			sum.Picks += int64(s.Stats.Picks)
			sum.Switches += int64(s.Stats.Switches)
			sum.Preemptions += int64(s.Stats.Preemptions)
			sum.Tasks += int64(s.Stats.Tasks)
			sum.ClockJumps += int64(s.Stats.ClockJumps)
			sum.LockWaits += int64(s.Stats.LockWaits)
			sum.SimNanos += s.Stats.SimNanos
			for k := range s.Stats.SwitchPairs {
				if len(pairs) < 20000 {
					pairs[k] = true
				}
			}
		}
		cls := o.Class
		if cls == "" {
			cls = "ok"
		}
		sum.Outcomes[cls]++
		if len(sum.Samples) < 3 && o.Sample != nil && (o.Nontrivial || i == to-1) {
			smp := map[string]interface{}{"index": i, "run_seed": seed, "case": o.Sample}
			if o.Sim != nil {
				smp["schedule"] = map[string]interface{}{"steps": o.Sim.Stats.Steps, "picks": o.Sim.Stats.Picks, "switches": o.Sim.Stats.Switches, "preemptions": o.Sim.Stats.Preemptions, "tasks": o.Sim.Stats.Tasks, "sim_ns": o.Sim.Stats.SimNanos}
			}
			smp["work_tape_len"] = len(rc.W.Rec)
			smp["sched_tape_head"] = head(rc.S.Rec, 40)
			sum.Samples = append(sum.Samples, smp)
		}
		if o.Class != "" {
			sum.Violations++
			report := func(class, key, msg string, minimise bool) {
				id := class + "|" + key
				if seenKeys[id] {
					return
				}
				seenKeys[id] = true
				rf := &ReplayFile{Property: prop, Engine: engName, Class: class, Key: key, Message: msg, BaseSeed: base, Index: i,
					RunSeed: seed, Tier: tier, Mode: "tapes", RangeFrom: from, Work: append([]int(nil), rc.W.Rec...), Sched: append([]int(nil), rc.S.Rec...),
					Race: simrt.RaceBuild, Sample: o.Sample, Detail: o.Detail}
				if minimise {
					minimiseReplay(eng, rf, t)
				}
				emit(map[string]interface{}{"type": "violation", "replay": rf})
			}
			report(o.Class, o.Key, o.Msg, true)
			for _, e := range o.Extra {
				report(e.Class, e.Key, e.Msg, false)
			}
		}
	}
	for h := range hashes {
		sum.Hashes = append(sum.Hashes, fmt.Sprintf("%x", h))
	}
	for k := range pairs {
		sum.SwitchPairs = append(sum.SwitchPairs, k)
	}
	sum.WallS = time.Since(start).Seconds()
	emit(sum)
}

func head(v []int, n int) []int {
	if len(v) > n {
		return v[:n]
	}
	return v
}

// minimiseReplay shrinks the schedule tape, then the workload tape, while the run still ends
// in the same violation class and key.  Bounded in executions and wall time.
func minimiseReplay(eng Engine, rf *ReplayFile, t *testing.T) {
	budget := 300
	deadline := time.Now().Add(60 * time.Second)
	execs := 0
	try := func(work, sched []int) bool {
		if execs >= budget || time.Now().After(deadline) {
			return false
		}
		execs++
		rc := &RunCtx{Prop: rf.Property, Engine: rf.Engine, Seed: rf.RunSeed, Index: rf.Index, T: t, Tier: rf.Tier, Replay: true,
			W: simrt.ReplayTape(work), S: simrt.ReplayTape(sched)}
		o := runOnce(eng, rc)
		if os.Getenv("VERIF_DEBUG_MIN") != "" {
			fmt.Fprintf(os.Stderr, "minimise exec %d: class=%q key=%q msg=%.300s\n", execs, o.Class, o.Key, o.Msg)
		}
		if o.Class == rf.Class && o.Key == rf.Key {
			return true
		}
		for _, e := range o.Extra {
			if e.Class == rf.Class && e.Key == rf.Key {
				return true
			}
		}
		return false
	}
	work, sched := rf.Work, rf.Sched
	before := [2]int{nonzero(work), nonzero(sched)}
	// the recorded tapes must reproduce at all
	if !try(work, sched) {
		rf.Minimised = map[string]int{"reproduced_in_process": 0}
		return
	}
	sched = shrinkTape(sched, func(s []int) bool { return try(work, s) })
	work = shrinkTape(work, func(w []int) bool { return try(w, sched) })
	rf.Work, rf.Sched = work, sched
	rf.Minimised = map[string]int{"reproduced_in_process": 1, "executions": execs, "work_nonzero_before": before[0], "work_nonzero_after": nonzero(work),
		"sched_nonzero_before": before[1], "sched_nonzero_after": nonzero(sched), "sched_len_after": len(sched), "work_len_after": len(work)}
	// refresh the message from the minimised run
	rc := &RunCtx{Prop: rf.Property, Engine: rf.Engine, Seed: rf.RunSeed, Index: rf.Index, T: t, Tier: rf.Tier, Replay: true,
		W: simrt.ReplayTape(work), S: simrt.ReplayTape(sched)}
	if o := runOnce(eng, rc); o.Class == rf.Class && o.Key == rf.Key {
		rf.Message = o.Msg
		rf.Sample = o.Sample
		if o.Sim != nil {
			rf.Events = o.Sim.Events
		}
	}
}

func nonzero(v []int) int {
	n := 0
	for _, x := range v {
		if x != 0 {
			n++
		}
	}
	return n
}

// shrinkTape: all-zero, zero suffixes (binary search), zero chunks, zero / halve single entries.
func shrinkTape(tape []int, ok func([]int) bool) []int {
	cur := append([]int(nil), tape...)
	zeroFrom := func(v []int, a, b int) []int {
		c := append([]int(nil), v...)
		for i := a; i < b && i < len(c); i++ {
			c[i] = 0
		}
		return c
	}
	trim := func(v []int) []int {
		n := len(v)
		for n > 0 && v[n-1] == 0 {
			n--
		}
		return v[:n]
	}
	if len(cur) == 0 {
		return cur
	}
	if c := zeroFrom(cur, 0, len(cur)); ok(c) {
		return trim(c)
	}
	// largest zero suffix
	lo, hi := 0, len(cur) // keep prefix of length hi works; find the smallest
	for lo < hi {
		mid := (lo + hi) / 2
		if c := zeroFrom(cur, mid, len(cur)); ok(c) {
			hi = mid
			cur = c
		} else {
			lo = mid + 1
		}
	}
	cur = trim(cur)
	// zero chunks
	for size := len(cur) / 2; size >= 1; size /= 2 {
		for a := 0; a < len(cur); a += size {
			if nonzero(cur[a:min(a+size, len(cur))]) == 0 {
				continue
			}
			if c := zeroFrom(cur, a, a+size); ok(c) {
				cur = c
			}
		}
		if size == 1 {
			break
		}
	}
	// halve remaining entries
	for i := range cur {
		for cur[i] > 1 {
			c := append([]int(nil), cur...)
			c[i] = cur[i] / 2
			if !ok(c) {
				break
			}
			cur = c
		}
	}
	return trim(cur)
}

var _ = strings.Contains
