/* cdriver: calls libopenwater.so's RunSingleModel through the C ABI on guard-paged buffers.
 *
 * usage: cdriver <path to libopenwater.so>
 * protocol (stdin/stdout, native little-endian): see readJob(); one result per job.
 * Every buffer handed to the library sits flush against a PROT_NONE page (after or before the
 * buffer); the slack on the other side is filled with a canary.  An out-of-buffer access kills
 * the driver with SIGSEGV (the harness reports the job), a write into the slack is reported in
 * the result.
 */
#define _GNU_SOURCE
#include <dlfcn.h>
#include <stdint.h>
#include <stdio.h>
#include <stdlib.h>
#include <string.h>
#include <sys/mman.h>
#include <unistd.h>

typedef void (*run_fn)(char *, double *, int, int, int, double *, int, int, double *, int, int, double *, int, int, int, unsigned char);

#define PAGE 4096
#define CANARY 0xA5

typedef struct {
  unsigned char *region;
  size_t total;
  double *ptr;
  size_t nbytes;
  size_t lo;
  int before;
} gbuf;

static int readAll(void *p, size_t n) {
  size_t got = 0;
  while (got < n) {
    ssize_t r = read(0, (char *)p + got, n - got);
    if (r <= 0) return 0;
    got += (size_t)r;
  }
  return 1;
}

/* the protocol uses a private copy of the original stdout; descriptor 1 is pointed at stderr so that
   messages the library prints (fmt.Println in a kernel) cannot get into the protocol stream */
static int outfd = 1;

static void writeAll(const void *p, size_t n) {
  size_t done = 0;
  while (done < n) {
    ssize_t r = write(outfd, (const char *)p + done, n - done);
    if (r <= 0) exit(3);
    done += (size_t)r;
  }
}

static gbuf galloc(size_t ndoubles, int before) {
  gbuf g;
  g.nbytes = ndoubles * sizeof(double);
  size_t pages = (g.nbytes + PAGE - 1) / PAGE;
  if (pages == 0) pages = 1;
  g.total = (pages + 1) * PAGE;
  g.before = before;
  g.region = mmap(NULL, g.total, PROT_READ | PROT_WRITE, MAP_PRIVATE | MAP_ANONYMOUS, -1, 0);
  if (g.region == MAP_FAILED) exit(4);
  memset(g.region, CANARY, g.total);
  if (before) {
    mprotect(g.region, PAGE, PROT_NONE);
    g.lo = PAGE;
  } else {
    mprotect(g.region + g.total - PAGE, PAGE, PROT_NONE);
    g.lo = g.total - PAGE - g.nbytes;
  }
  g.ptr = (double *)(g.region + g.lo);
  return g;
}

static int canaryOk(gbuf *g) {
  size_t a = g->before ? PAGE : 0, b = g->before ? g->total : g->total - PAGE;
  for (size_t i = a; i < b; i++) {
    if (i >= g->lo && i < g->lo + g->nbytes) continue;
    if (g->region[i] != CANARY) return 0;
  }
  return 1;
}

static void gfree(gbuf *g) { munmap(g->region, g->total); }

int main(int argc, char **argv) {
  if (argc < 2) return 2;
  outfd = dup(1);
  if (outfd < 0 || dup2(2, 1) < 0) return 2;
  void *h = dlopen(argv[1], RTLD_NOW);
  if (!h) {
    fprintf(stderr, "dlopen: %s\n", dlerror());
    return 2;
  }
  run_fn run = (run_fn)dlsym(h, "RunSingleModel");
  if (!run) {
    fprintf(stderr, "dlsym: %s\n", dlerror());
    return 2;
  }
  for (;;) {
    int32_t hdr[14];
    /* nameLen, nInputSets, nInputs, nTimesteps, nParameters, nParameterSets, nCells, nStates,
       hasStates, nOutputCells, nOutputs, nOutputTimesteps, initStates, guardBefore */
    if (!readAll(hdr, sizeof hdr)) return 0;
    char name[256];
    if (hdr[0] <= 0 || hdr[0] >= 255 || !readAll(name, (size_t)hdr[0])) return 5;
    name[hdr[0]] = 0;
    size_t nIn = (size_t)hdr[1] * hdr[2] * hdr[3], nPar = (size_t)hdr[4] * hdr[5], nSt = (size_t)hdr[6] * hdr[7],
           nOut = (size_t)hdr[9] * hdr[10] * hdr[11];
    int before = hdr[13];
    gbuf in = galloc(nIn, before), par = galloc(nPar, before), st = galloc(nSt, before), out = galloc(nOut, before);
    if (nIn && !readAll(in.ptr, nIn * 8)) return 5;
    if (nPar && !readAll(par.ptr, nPar * 8)) return 5;
    if (hdr[8] && nSt && !readAll(st.ptr, nSt * 8)) return 5;
    memset(out.ptr, 0, nOut * 8);
    run(name, in.ptr, hdr[1], hdr[2], hdr[3], par.ptr, hdr[4], hdr[5], hdr[8] ? st.ptr : NULL, hdr[6], hdr[7], out.ptr, hdr[9],
        hdr[10], hdr[11], (unsigned char)hdr[12]);
    int32_t status[5] = {1, canaryOk(&in), canaryOk(&par), canaryOk(&st), canaryOk(&out)};
    writeAll(status, sizeof status);
    if (nIn) writeAll(in.ptr, nIn * 8);
    if (nPar) writeAll(par.ptr, nPar * 8);
    if (hdr[8] && nSt) writeAll(st.ptr, nSt * 8);
    if (nOut) writeAll(out.ptr, nOut * 8);
    gfree(&in);
    gfree(&par);
    gfree(&st);
    gfree(&out);
  }
}
